//! Shim of `rayon-core` for exhaustive schedule exploration (DESIGN.md appendix A).
//!
//! Only the *scheduler* is replaced.  `rayon` (parallel iterators, `LengthSplitter`,
//! producers/consumers, the `Result` collect consumer with its early-exit flag) and
//! nalgebra's `par_column_iter_mut` producer compile against this crate unchanged.
//!
//! `join_context(a, b)`: real rayon pushes `b` on the caller's deque and runs `a`;
//! afterwards the caller either pops `b` back itself (not migrated, strictly after `a`)
//! or another worker has stolen it (migrated, concurrent with `a`).  Here an outer
//! enumerator decides per node of the split tree (`verif::set_steals`) which of the two
//! happens; a stolen `b` runs on a new *shuttle* thread, so that shuttle's DFS scheduler
//! enumerates every interleaving of the tasks at their scheduling points.
use std::collections::{BTreeMap, BTreeSet};
use std::sync::atomic::{AtomicUsize, Ordering};
use std::sync::Mutex;

pub mod verif {
    use super::*;
    pub(crate) static NUM_THREADS: AtomicUsize = AtomicUsize::new(1);
    pub(crate) static STEALS: Mutex<BTreeMap<String, bool>> = Mutex::new(BTreeMap::new());
    pub(crate) static SEEN: Mutex<BTreeSet<String>> = Mutex::new(BTreeSet::new());
    pub(crate) static SPAWNED: AtomicUsize = AtomicUsize::new(0);

    /// value returned by `current_num_threads()` (drives rayon's splitting policy)
    pub fn set_num_threads(n: usize) {
        NUM_THREADS.store(n.max(1), Ordering::SeqCst);
    }
    /// steal decision per split-tree node (path string "", "L", "R", "LR", ...); unknown nodes are not stolen
    pub fn set_steals(m: BTreeMap<String, bool>) {
        *STEALS.lock().unwrap() = m;
    }
    /// split-tree nodes (join_context calls) reached since the last `clear_seen`
    pub fn seen() -> BTreeSet<String> {
        SEEN.lock().unwrap().clone()
    }
    pub fn clear_seen() {
        SEEN.lock().unwrap().clear();
    }
    pub fn spawned_tasks() -> usize {
        SPAWNED.load(Ordering::SeqCst)
    }
    pub(crate) fn decide(path: &str) -> bool {
        SEEN.lock().unwrap().insert(path.to_string());
        NUM_THREADS.load(Ordering::SeqCst) > 1 && STEALS.lock().unwrap().get(path).copied().unwrap_or(false)
    }
}

shuttle::thread_local! {
    static PATH: std::cell::RefCell<String> = std::cell::RefCell::new(String::new());
}
fn cur_path() -> String {
    PATH.with(|p| p.borrow().clone())
}
fn set_path(s: String) {
    PATH.with(|p| *p.borrow_mut() = s);
}

/// Provides context to a closure called by `join_context`.
#[derive(Debug)]
pub struct FnContext {
    migrated: bool,
}
impl FnContext {
    #[inline]
    pub fn migrated(&self) -> bool {
        self.migrated
    }
}

pub fn join<A, B, RA, RB>(oper_a: A, oper_b: B) -> (RA, RB)
where
    A: FnOnce() -> RA + Send,
    B: FnOnce() -> RB + Send,
    RA: Send,
    RB: Send,
{
    join_context(|_| oper_a(), |_| oper_b())
}

pub fn join_context<A, B, RA, RB>(oper_a: A, oper_b: B) -> (RA, RB)
where
    A: FnOnce(FnContext) -> RA + Send,
    B: FnOnce(FnContext) -> RB + Send,
    RA: Send,
    RB: Send,
{
    let path = cur_path();
    let steal = verif::decide(&path);
    if !steal {
        // b is popped back by the same worker, strictly after a
        set_path(format!("{path}L"));
        let ra = oper_a(FnContext { migrated: false });
        set_path(format!("{path}R"));
        let rb = oper_b(FnContext { migrated: false });
        set_path(path);
        (ra, rb)
    } else {
        // b is stolen: it runs on another (shuttle) thread, interleaved freely with a
        let slot: Mutex<Option<RB>> = Mutex::new(None);
        let slot_ref = &slot;
        let pr = format!("{path}R");
        let job: Box<dyn FnOnce() + Send + '_> = Box::new(move || {
            set_path(pr);
            let rb = oper_b(FnContext { migrated: true });
            *slot_ref.lock().unwrap() = Some(rb);
        });
        // SAFETY: the thread is joined below before anything borrowed by `oper_b` or `slot` goes out of scope
        let job: Box<dyn FnOnce() + Send + 'static> = unsafe { std::mem::transmute(job) };
        verif::SPAWNED.fetch_add(1, Ordering::SeqCst);
        let h = shuttle::thread::spawn(job);
        set_path(format!("{path}L"));
        let ra = oper_a(FnContext { migrated: false });
        h.join().expect("stolen job panicked");
        set_path(path);
        let rb = slot.into_inner().unwrap().expect("stolen job finished");
        (ra, rb)
    }
}

pub fn current_num_threads() -> usize {
    verif::NUM_THREADS.load(Ordering::SeqCst)
}
pub fn current_thread_index() -> Option<usize> {
    None
}
pub fn max_num_threads() -> usize {
    1 << 16
}

// ---- sequential scopes (rayon uses in_place_scope only in iter::skip) -------------------------
pub struct Scope<'scope> {
    _m: std::marker::PhantomData<&'scope ()>,
}
impl<'scope> std::fmt::Debug for Scope<'scope> {
    fn fmt(&self, f: &mut std::fmt::Formatter<'_>) -> std::fmt::Result {
        f.write_str("Scope")
    }
}
impl<'scope> Scope<'scope> {
    pub fn spawn<BODY>(&self, body: BODY)
    where
        BODY: FnOnce(&Scope<'scope>) + Send + 'scope,
    {
        body(self)
    }
    pub fn spawn_broadcast<BODY>(&self, _body: BODY)
    where
        BODY: Fn(&Scope<'scope>, BroadcastContext<'_>) + Send + Sync + 'scope,
    {
        unimplemented!("shim: spawn_broadcast")
    }
}
pub struct ScopeFifo<'scope> {
    _m: std::marker::PhantomData<&'scope ()>,
}
impl<'scope> std::fmt::Debug for ScopeFifo<'scope> {
    fn fmt(&self, f: &mut std::fmt::Formatter<'_>) -> std::fmt::Result {
        f.write_str("ScopeFifo")
    }
}
impl<'scope> ScopeFifo<'scope> {
    pub fn spawn_fifo<BODY>(&self, body: BODY)
    where
        BODY: FnOnce(&ScopeFifo<'scope>) + Send + 'scope,
    {
        body(self)
    }
}
pub fn scope<'scope, OP, R>(op: OP) -> R
where
    OP: FnOnce(&Scope<'scope>) -> R + Send,
    R: Send,
{
    op(&Scope { _m: Default::default() })
}
pub fn in_place_scope<'scope, OP, R>(op: OP) -> R
where
    OP: FnOnce(&Scope<'scope>) -> R,
{
    op(&Scope { _m: Default::default() })
}
pub fn scope_fifo<'scope, OP, R>(op: OP) -> R
where
    OP: FnOnce(&ScopeFifo<'scope>) -> R + Send,
    R: Send,
{
    op(&ScopeFifo { _m: Default::default() })
}
pub fn in_place_scope_fifo<'scope, OP, R>(op: OP) -> R
where
    OP: FnOnce(&ScopeFifo<'scope>) -> R,
{
    op(&ScopeFifo { _m: Default::default() })
}

// ---- re-exported items that varpro / nalgebra never reach ---------------------------------------
#[derive(Debug)]
pub struct BroadcastContext<'a> {
    _m: std::marker::PhantomData<&'a ()>,
}
impl<'a> BroadcastContext<'a> {
    pub fn index(&self) -> usize {
        0
    }
    pub fn num_threads(&self) -> usize {
        1
    }
}
pub fn broadcast<OP, R>(_op: OP) -> Vec<R>
where
    OP: Fn(BroadcastContext<'_>) -> R + Sync,
    R: Send,
{
    unimplemented!("shim: broadcast")
}
pub fn spawn_broadcast<OP>(_op: OP)
where
    OP: Fn(BroadcastContext<'_>) + Send + Sync + 'static,
{
    unimplemented!("shim: spawn_broadcast")
}
pub fn spawn<F>(_func: F)
where
    F: FnOnce() + Send + 'static,
{
    unimplemented!("shim: spawn")
}
pub fn spawn_fifo<F>(_func: F)
where
    F: FnOnce() + Send + 'static,
{
    unimplemented!("shim: spawn_fifo")
}
#[derive(Clone, Copy, Debug, PartialEq, Eq)]
pub enum Yield {
    Executed,
    Idle,
}
pub fn yield_now() -> Option<Yield> {
    None
}
pub fn yield_local() -> Option<Yield> {
    None
}
#[derive(Debug)]
pub struct ThreadPoolBuildError;
impl std::fmt::Display for ThreadPoolBuildError {
    fn fmt(&self, f: &mut std::fmt::Formatter<'_>) -> std::fmt::Result {
        f.write_str("shim: thread pools are not available")
    }
}
impl std::error::Error for ThreadPoolBuildError {}
#[derive(Debug)]
pub struct ThreadPool;
impl ThreadPool {
    pub fn install<OP, R>(&self, op: OP) -> R
    where
        OP: FnOnce() -> R + Send,
        R: Send,
    {
        op()
    }
    pub fn current_num_threads(&self) -> usize {
        current_num_threads()
    }
}
#[derive(Debug, Default)]
pub struct ThreadBuilder;
#[derive(Debug, Default)]
pub struct ThreadPoolBuilder;
impl ThreadPoolBuilder {
    pub fn new() -> Self {
        ThreadPoolBuilder
    }
    pub fn num_threads(self, _n: usize) -> Self {
        self
    }
    pub fn build(self) -> Result<ThreadPool, ThreadPoolBuildError> {
        Err(ThreadPoolBuildError)
    }
    pub fn build_global(self) -> Result<(), ThreadPoolBuildError> {
        Err(ThreadPoolBuildError)
    }
}
