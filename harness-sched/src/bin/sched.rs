//! E6 – property C11: ALL schedules of varpro's parallel Jacobian.
//! This workspace patches `rayon-core` with the shuttle-based shim; rayon's iterator
//! plumbing, nalgebra's `par_column_iter_mut` producer and varpro are the real code.
//! Outer loop: every steal map (one decision per node of the split tree, nodes
//! discovered lazily).  Inner loop: `shuttle::check_dfs` enumerates every
//! interleaving of the tasks at their scheduling points (spawn, join, a yield at
//! the entry of every `eval_partial_deriv`, the lock of the shared cache).
//! Oracle per schedule: the Jacobian is bitwise the sequential one (or None when a
//! derivative fails), every derivative index is evaluated exactly once.
use nalgebra::{DMatrix, DVector, Dyn, OMatrix, OVector};
use serde_json::{json, Value};
use std::collections::{BTreeMap, BTreeSet};
use std::sync::atomic::{AtomicBool, AtomicU64, Ordering};
use std::sync::{Arc, Mutex};
use varpro::prelude::SeparableNonlinearModel;
use vpmc::gen::*;
use vpmc::num::*;
use vpmc::prob::{self, Api};
use vpmc::run::*;
use vpmc::zoo::*;

static YIELD_ON: AtomicBool = AtomicBool::new(false);

struct YModel {
    inner: BM<f64>,
    log: Arc<Mutex<Vec<usize>>>,
    fail_at: Option<usize>,
    cache: Option<Arc<shuttle::sync::Mutex<BTreeMap<usize, DMatrix<f64>>>>>,
}
impl SeparableNonlinearModel for YModel {
    type ScalarType = f64;
    type Error = MErr;
    fn parameter_count(&self) -> usize {
        self.inner.parameter_count()
    }
    fn base_function_count(&self) -> usize {
        self.inner.base_function_count()
    }
    fn output_len(&self) -> usize {
        self.inner.output_len()
    }
    fn set_params(&mut self, p: OVector<f64, Dyn>) -> Result<(), MErr> {
        if let Some(c) = &self.cache {
            if YIELD_ON.load(Ordering::SeqCst) {
                c.lock().unwrap().clear();
            }
        }
        self.inner.set_params(p)
    }
    fn params(&self) -> OVector<f64, Dyn> {
        self.inner.params()
    }
    fn eval(&self) -> Result<OMatrix<f64, Dyn, Dyn>, MErr> {
        self.inner.eval()
    }
    fn eval_partial_deriv(&self, k: usize) -> Result<OMatrix<f64, Dyn, Dyn>, MErr> {
        let y = YIELD_ON.load(Ordering::SeqCst);
        if y {
            shuttle::thread::yield_now();
        }
        self.log.lock().unwrap().push(k);
        if self.fail_at == Some(k) {
            return Err(MErr::Injected(k as u64));
        }
        if let (Some(c), true) = (&self.cache, y) {
            // tasks really collide on shared state: a lazily filled cache behind a lock
            shuttle::thread::yield_now();
            let mut g = c.lock().unwrap();
            if let Some(m) = g.get(&k) {
                return Ok(m.clone());
            }
            let m = self.inner.eval_partial_deriv(k)?;
            // also pre-compute the neighbour's derivative, so that the order of arrival decides who computes what
            if k + 1 < self.inner.parameter_count() && !g.contains_key(&(k + 1)) {
                let n = self.inner.eval_partial_deriv(k + 1)?;
                g.insert(k + 1, n);
            }
            g.insert(k, m.clone());
            return Ok(m);
        }
        self.inner.eval_partial_deriv(k)
    }
}
impl DynModel<f64> for YModel {
    fn clone_box(&self) -> Box<dyn DynModel<f64>> {
        Box::new(YModel { inner: self.inner.clone(), log: self.log.clone(), fail_at: self.fail_at, cache: self.cache.clone() })
    }
}

#[derive(Debug, Clone)]
struct Cfg {
    fam: Family,
    n: usize,
    s: usize,
    weighted: bool,
    threads: usize,
    fail_at: Option<usize>,
    cache: bool,
    /// parameter vectors (states) at which the Jacobian is explored
    alphas: Vec<Vec<f64>>,
}
fn fam_json(f: &Family) -> Value {
    json!(f.name())
}
fn cfg_json(c: &Cfg) -> Value {
    json!({"family": fam_json(&c.fam), "n": c.n, "s": c.s, "weighted": c.weighted, "threads": c.threads, "fail_at": c.fail_at, "cache": c.cache, "alphas": c.alphas})
}
fn fam_parse(s: &str) -> Family {
    match s {
        "Exp1Off" => Family::Exp1Off,
        "Exp2Off" => Family::Exp2Off,
        "Exp3" => Family::Exp3,
        "OLeary" => Family::OLeary,
        "GaussDecayOff" => Family::GaussDecayOff,
        o if o.starts_with("ExpN") => Family::ExpN(o[4..].parse().unwrap()),
        o => panic!("family {}", o),
    }
}
fn cfg_parse(v: &Value) -> Cfg {
    Cfg {
        fam: fam_parse(v["family"].as_str().unwrap()),
        n: v["n"].as_u64().unwrap() as usize,
        s: v["s"].as_u64().unwrap() as usize,
        weighted: v["weighted"].as_bool().unwrap(),
        threads: v["threads"].as_u64().unwrap() as usize,
        fail_at: v["fail_at"].as_u64().map(|x| x as usize),
        cache: v["cache"].as_bool().unwrap(),
        alphas: v["alphas"].as_array().unwrap().iter().map(|a| a.as_array().unwrap().iter().map(|x| x.as_f64().unwrap()).collect()).collect(),
    }
}

struct Shared {
    orders: Mutex<BTreeSet<Vec<usize>>>,
    executions: AtomicU64,
    bad: Mutex<Vec<String>>,
}

fn problem_for(cfg: &Cfg, alpha: &[f64], par: bool, log: Arc<Mutex<Vec<usize>>>, cache: bool) -> Box<dyn prob::Prob<f64>> {
    let spec = spec_for(&cfg.fam, cfg.n);
    let mut y = DMatrix::<f64>::zeros(cfg.n, cfg.s);
    for s in 0..cfg.s {
        y.set_column(s, &data(&spec, 1.0 + s as f64, 5e-3, 1 + s as u64, 3));
    }
    let w: Option<DVector<f64>> = if cfg.weighted { WKind::Ramp.make(cfg.n).map(|w| vec_t::<f64>(&w)) } else { None };
    let inner = make::<f64>(&spec, Prov::Hand, alpha);
    let c = if cache { Some(Arc::new(shuttle::sync::Mutex::new(BTreeMap::new()))) } else { None };
    let model = BM(Box::new(YModel { inner, log, fail_at: cfg.fail_at, cache: c }));
    prob::build(model, &y, w.as_ref(), None, if cfg.s == 1 { Api::Single } else { Api::Mrhs }, par).expect("builds")
}

/// explores every steal map x every interleaving for one state; returns (executions, effective steal maps, distinct orders, max tasks)
fn explore_state(ctx: &Ctx, cfg: &Cfg, alpha: &[f64], only_map: Option<BTreeMap<String, bool>>) -> (u64, u64, u64) {
    let p = cfg.fam.p();
    // sequential reference (no scheduler involved)
    YIELD_ON.store(false, Ordering::SeqCst);
    let seq_log = Arc::new(Mutex::new(vec![]));
    let expected: Option<Vec<u64>> = problem_for(cfg, alpha, false, seq_log.clone(), false).jacobian().map(|j| j.iter().map(|v| v.to_bits()).collect());
    if cfg.fail_at.is_none() && expected.is_none() {
        return (0, 0, 0);
    }
    let shared = Arc::new(Shared { orders: Default::default(), executions: AtomicU64::new(0), bad: Default::default() });
    rayon_core::verif::set_num_threads(cfg.threads);
    let mut known_paths: BTreeSet<String> = BTreeSet::new();
    let mut explored_effective: BTreeSet<Vec<(String, bool)>> = BTreeSet::new();
    let mut todo: Vec<BTreeMap<String, bool>> = vec![only_map.clone().unwrap_or_default()];
    let mut tried: BTreeSet<Vec<(String, bool)>> = BTreeSet::new();
    let mut total_exec = 0u64;
    while let Some(map) = todo.pop() {
        let key: Vec<(String, bool)> = map.iter().filter(|(_, v)| **v).map(|(k, v)| (k.clone(), *v)).collect();
        if !tried.insert(key) {
            continue;
        }
        rayon_core::verif::set_steals(map.clone());
        rayon_core::verif::clear_seen();
        let before = shared.executions.load(Ordering::SeqCst);
        let (cfg2, alpha2, sh, exp) = (cfg.clone(), alpha.to_vec(), shared.clone(), expected.clone());
        let run = guarded(|| {
            YIELD_ON.store(true, Ordering::SeqCst);
            shuttle::check_dfs(
                move || {
                    let log = Arc::new(Mutex::new(vec![]));
                    let pr = problem_for(&cfg2, &alpha2, true, log.clone(), cfg2.cache);
                    log.lock().unwrap().clear();
                    let j = pr.jacobian();
                    sh.executions.fetch_add(1, Ordering::SeqCst);
                    let order = log.lock().unwrap().clone();
                    let got: Option<Vec<u64>> = j.map(|j| j.iter().map(|v| v.to_bits()).collect());
                    if cfg2.fail_at.is_some() {
                        if got.is_some() {
                            sh.bad.lock().unwrap().push(format!("a derivative fails but jacobian() returned a matrix (evaluation order {:?})", order));
                        }
                    } else {
                        if got != exp {
                            sh.bad.lock().unwrap().push(format!("jacobian differs bitwise from the sequential one (evaluation order {:?})", order));
                        }
                        let mut sorted = order.clone();
                        sorted.sort();
                        if !cfg2.cache && sorted != (0..cfg2.fam.p()).collect::<Vec<_>>() {
                            sh.bad.lock().unwrap().push(format!("derivative indices evaluated {:?}, expected each of 0..{} exactly once", order, cfg2.fam.p()));
                        }
                    }
                    sh.orders.lock().unwrap().insert(order);
                },
                None,
            );
        });
        YIELD_ON.store(false, Ordering::SeqCst);
        let execs = shared.executions.load(Ordering::SeqCst) - before;
        total_exec += execs;
        ctx.tick();
        let seen = rayon_core::verif::seen();
        let effective: Vec<(String, bool)> = seen.iter().map(|p| (p.clone(), map.get(p).copied().unwrap_or(false))).collect();
        let is_new = explored_effective.insert(effective.clone());
        if let Err(msg) = run {
            let c = json!({"cfg": cfg_json(cfg), "alpha": alpha, "steal_map": map});
            ctx.with(|s| s.violate("C11", "panic-under-schedule", c, format!("panicked under some schedule: {}", msg)));
        }
        let bad: Vec<String> = std::mem::take(&mut *shared.bad.lock().unwrap());
        if !bad.is_empty() {
            let c = json!({"cfg": cfg_json(cfg), "alpha": alpha, "steal_map": map});
            let sig = if cfg.fail_at.is_some() { "partial-jacobian-under-schedule" } else { "schedule-dependent-jacobian" };
            ctx.with(|s| s.violate("C11", sig, c, format!("{} of {} schedules of this steal map: {}", bad.len(), execs, bad[0])));
        }
        if is_new {
            ctx.with(|s| s.inc("effective_steal_maps"));
        }
        if only_map.is_some() {
            break;
        }
        // discover further nodes of the split tree; the candidate steal maps are ALL subsets of the known nodes
        let mut grew = false;
        for pth in seen {
            if known_paths.insert(pth) {
                grew = true;
            }
        }
        if grew {
            let nodes: Vec<String> = known_paths.iter().cloned().collect();
            assert!(nodes.len() <= 12, "split tree larger than expected");
            for bits in 0u32..(1 << nodes.len()) {
                let m: BTreeMap<String, bool> = nodes.iter().enumerate().filter(|(i, _)| (bits >> i) & 1 == 1).map(|(_, n)| (n.clone(), true)).collect();
                todo.push(m);
            }
        }
    }
    let orders = shared.orders.lock().unwrap().len() as u64;
    let _ = p;
    (total_exec, explored_effective.len() as u64, orders)
}

fn factorial(n: usize) -> u64 {
    (1..=n as u64).product()
}

fn configs(thorough: bool) -> Vec<Cfg> {
    let mut v = vec![];
    let fams: Vec<Family> = if thorough {
        vec![Family::Exp1Off, Family::Exp2Off, Family::OLeary, Family::Exp3, Family::ExpN(4), Family::ExpN(5)]
    } else {
        vec![Family::Exp1Off, Family::Exp2Off, Family::OLeary, Family::ExpN(4), Family::ExpN(5)]
    };
    for fam in fams {
        let (a, _) = truth(&fam);
        let p = fam.p();
        // states: the start, two points along a fit trajectory (perturbed truths), the truth
        let alphas: Vec<Vec<f64>> = vec![a.iter().map(|v| v * 1.1).collect(), a.iter().enumerate().map(|(k, v)| v * (0.9 + 0.03 * k as f64)).collect(), a.clone()];
        let threads: Vec<usize> = if thorough { vec![1, 2, 3, 4, 8, 16] } else { vec![1, 2, 16] };
        for &t in &threads {
            for s in [1usize, 2] {
                for weighted in [false, true] {
                    if !thorough && p != 5 && (s == 2) != weighted {
                        continue;
                    }
                    if p == 5 && (s == 2 || !weighted || t == 3 || t == 8 || (!thorough && t != 2)) {
                        continue;
                    }
                    let al = if p >= 4 { alphas[..1].to_vec() } else { alphas.clone() };
                    v.push(Cfg { fam: fam.clone(), n: 2 * p + 4, s, weighted, threads: t, fail_at: None, cache: false, alphas: al.clone() });
                    if t > 1 && s == 1 && p <= 4 {
                        for k in 0..p {
                            v.push(Cfg { fam: fam.clone(), n: 2 * p + 4, s, weighted, threads: t, fail_at: Some(k), cache: false, alphas: al[..1].to_vec() });
                        }
                        if p >= 2 && p <= 3 {
                            v.push(Cfg { fam: fam.clone(), n: 2 * p + 4, s, weighted, threads: t, fail_at: None, cache: true, alphas: al[..1].to_vec() });
                        }
                    }
                }
            }
        }
    }
    v
}

fn main() {
    engine_main("sched", |ctx: Arc<Ctx>| {
        if let Some(r) = &ctx.args.replay {
            let v: Value = serde_json::from_str(r).unwrap();
            let cfg = cfg_parse(&v["cfg"]);
            let alpha: Vec<f64> = v["alpha"].as_array().unwrap().iter().map(|x| x.as_f64().unwrap()).collect();
            let map: BTreeMap<String, bool> = v["steal_map"].as_object().unwrap().iter().map(|(k, b)| (k.clone(), b.as_bool().unwrap())).collect();
            explore_state(&ctx, &cfg, &alpha, Some(map));
            return;
        }
        // the harness owns every choice: shuttle's nondeterminism detector on one configuration
        if ctx.args.shard == 0 {
            let cfg = Cfg { fam: Family::Exp2Off, n: 8, s: 1, weighted: true, threads: 4, fail_at: None, cache: true, alphas: vec![] };
            let (a, _) = truth(&cfg.fam);
            rayon_core::verif::set_num_threads(4);
            rayon_core::verif::set_steals([("".to_string(), true)].into_iter().collect());
            YIELD_ON.store(true, Ordering::SeqCst);
            let c2 = cfg.clone();
            let r = guarded(move || {
                shuttle::check_uncontrolled_nondeterminism(
                    move || {
                        let log = Arc::new(Mutex::new(vec![]));
                        let pr = problem_for(&c2, &a, true, log, true);
                        let _ = pr.jacobian();
                    },
                    200,
                )
            });
            YIELD_ON.store(false, Ordering::SeqCst);
            match r {
                Ok(()) => ctx.with(|s| s.inc("uncontrolled_nondeterminism_checks_passed")),
                Err(m) => {
                    eprintln!("harness nondeterminism: {}", m);
                    panic!("the harness does not own every source of nondeterminism: {}", m)
                }
            }
        }
        let list = configs(ctx.args.thorough());
        for (i, cfg) in list.iter().enumerate() {
            if !ctx.args.mine(i as u64) {
                continue;
            }
            ctx.begin_desc(i as u64, cfg_json(cfg));
            for alpha in &cfg.alphas {
                let (execs, maps, orders) = explore_state(&ctx, cfg, alpha, None);
                let p = cfg.fam.p();
                ctx.with(|s| {
                    s.add("transitions", execs);
                    s.add("evaluations", execs);
                    s.add("traces_validated", execs);
                    s.add("states", maps * orders.max(1));
                    s.add("distinct_nontrivial", orders);
                    s.inc("explored_jacobian_states");
                    s.bucket("distinct_evaluation_orders", &format!("P={} threads={:02} fail={} cache={}: {} of {}!={}", p, cfg.threads, cfg.fail_at.is_some(), cfg.cache, orders, p, factorial(p)));
                    if cfg.fail_at.is_none() && !cfg.cache && cfg.threads >= p.max(2) && orders < factorial(p) {
                        s.notes.push(format!("{} with {} threads: only {} of {} evaluation orders reached", cfg.fam.name(), cfg.threads, orders, factorial(p)));
                    }
                    if execs > 1 {
                        s.sample(json!({"cfg": cfg_json(cfg), "alpha": alpha, "schedules": execs, "effective_steal_maps": maps, "distinct_evaluation_orders": orders}));
                    }
                });
            }
        }
    });
}
