#!/usr/bin/env python3-vt
"""Generates tquant.json: reference two-sided Student-t factors t((1+p)/2; nu)
from scipy, for the probability alphabet of the C14 check, separately for the
f64 and the f32 representation of each p (the subject receives p in its own
scalar type).  Re-run only when the alphabet changes; the table is committed."""
import json, numpy as np
from scipy import stats
P = [1e-12, 1e-9, 2.0**-20, 0.01, 0.1, 0.5, 0.683, 0.9, 0.95, 0.99, 0.999, 1 - 2.0**-20, 1 - 2.0**-24]
NU = list(range(1, 31)) + [100, 995, 1001, 1201, 5000]
out = {"p": P, "nu": NU, "f64": {}, "f32": {}}
for name, cast in (("f64", np.float64), ("f32", np.float32)):
    for p in P:
        pc = float(cast(p))
        q = (pc + 1.0) / 2.0
        out[name][repr(pc)] = {"p_bits": int(np.array([cast(p)]).view(np.uint64 if name == "f64" else np.uint32)[0]), "q": q,
                               "t": [float(stats.t.ppf(q, nu)) for nu in NU],
                               # survival-function based value: accurate in the far tail
                               "t_isf": [float(stats.t.isf(1.0 - q, nu)) for nu in NU]}
json.dump(out, open(__file__.replace("gen_tquant.py", "tquant.json"), "w"), indent=0)
print("written")
