//! E4 – property C09 (and the all-or-nothing clause of C03): a failure injected
//! at EVERY model-call index of (a) problem construction followed by every
//! caller-driven update history up to depth d, (b) a complete fit, (c)
//! fit_with_statistics; transient and persistent, and for both legal behaviours
//! of a failing `set_params` (model keeps / stores the rejected parameters).
use levenberg_marquardt::LevenbergMarquardt;
use nalgebra::{DMatrix, DVector};
use serde_json::{json, Value};
use std::collections::BTreeMap;
use std::sync::Arc;
use vpmc::gen::*;
use vpmc::num::*;
use vpmc::prob::{self, observe, Api, Obs, Prob};
use vpmc::run::*;
use vpmc::wrap::*;
use vpmc::zoo::*;

#[derive(Debug, Clone)]
struct Scen {
    fam: Family,
    n: usize,
    s: usize,
    prov: Prov,
    par: bool,
    w: WKind,
    f32_: bool,
    /// multiplicative offsets of the start from the truth, per fit
    start: f64,
    /// the model stores parameters first and precomputes afterwards (stale matrices after a failed set_params)
    precomputing: bool,
}

fn fam_by_name(s: &str) -> Family {
    Family::from_json(&json!(s))
}
fn wk_by_name(s: &str) -> WKind {
    WKind::from_json(&json!(s))
}
fn scen_json(s: &Scen) -> Value {
    json!({"fam": s.fam.name(), "n": s.n, "s": s.s, "prov": s.prov.name(), "par": s.par, "w": format!("{:?}", s.w), "scalar": if s.f32_ {"f32"} else {"f64"}, "start": s.start, "precomputing": s.precomputing})
}
fn scen_parse(v: &Value) -> Scen {
    Scen {
        fam: fam_by_name(v["fam"].as_str().unwrap()),
        n: v["n"].as_u64().unwrap() as usize,
        s: v["s"].as_u64().unwrap() as usize,
        prov: if v["prov"] == "hand" { Prov::Hand } else { Prov::Built },
        par: v["par"].as_bool().unwrap(),
        w: wk_by_name(v["w"].as_str().unwrap()),
        f32_: v["scalar"] == "f32",
        start: v["start"].as_f64().unwrap(),
        precomputing: v["precomputing"].as_bool().unwrap_or(false),
    }
}

struct Env<T: Sc> {
    spec: ModelSpec,
    y: DMatrix<T>,
    w: Option<DVector<T>>,
    api: Api,
    alphas: Vec<Vec<f64>>,
    fresh: std::cell::RefCell<BTreeMap<Vec<u64>, Obs<T>>>,
}

impl<T: Sc> Env<T> {
    fn new(sc: &Scen) -> Self {
        let spec = spec_for(&sc.fam, sc.n);
        let mut y = DMatrix::<f64>::zeros(sc.n, sc.s);
        for s in 0..sc.s {
            y.set_column(s, &data(&spec, 1.0 + s as f64, 2e-3, 1 + s as u64, 11));
        }
        let (a, _) = truth(&sc.fam);
        let alphas = vec![
            a.iter().map(|v| v * sc.start).collect::<Vec<f64>>(),
            a.iter().enumerate().map(|(k, v)| v * (1.1 + 0.1 * k as f64)).collect(),
            a.iter().enumerate().map(|(k, v)| v * (0.8 - 0.05 * k as f64)).collect(),
            // a vector of the wrong length (one entry too many): every model rejects it while the parameters are applied
            a.iter().map(|v| v * 1.05).chain(std::iter::once(1.0)).collect(),
        ];
        Env { spec, y: mat_t(&y), w: sc.w.make(sc.n).map(|w| vec_t::<T>(&w)), api: if sc.s == 1 { Api::Single } else { Api::Mrhs }, alphas, fresh: Default::default() }
    }
    fn build(&self, sc: &Scen, plan: Arc<FaultPlan>) -> Box<dyn Prob<T>> {
        let base = make::<T>(&self.spec, sc.prov, &self.alphas[0]);
        let model = if sc.precomputing { Precomputing::wrap(base, plan) } else { Faulty::wrap(base, plan) };
        prob::build(model, &self.y, self.w.as_ref(), None, self.api, sc.par).expect("builds")
    }
    /// observation of a freshly built, un-faulted problem whose model starts at `a`
    fn fresh_at(&self, sc: &Scen, a: &[T]) -> Obs<T> {
        let key: Vec<u64> = a.iter().map(|v| v.bits()).collect();
        if let Some(o) = self.fresh.borrow().get(&key) {
            return o.clone();
        }
        let model = make_t::<T>(&self.spec, sc.prov, a);
        let p = prob::build(model, &self.y, self.w.as_ref(), None, self.api, false).expect("builds");
        let o = observe(p.as_ref());
        self.fresh.borrow_mut().insert(key, o.clone());
        o
    }
}

#[derive(Debug, Clone, Copy, PartialEq, Eq)]
enum Phase {
    History,
    Fit,
    FitStats,
}

struct Outcome {
    calls: u64,
    problems: Vec<(String, String)>,
    info: BTreeMap<String, u64>,
}

/// residuals / coefficients as returned, then the Jacobian, noting which faults fire during the Jacobian
fn checked_observe<T: Sc>(env: &Env<T>, sc: &Scen, p: &dyn Prob<T>, plan: &FaultPlan, update_failed: Option<bool>, out: &mut Outcome, at: &str) {
    let params = p.params();
    let res = p.residuals();
    let coef = p.coefs();
    let fired_before = plan.fired().len();
    let jac = p.jacobian();
    let deriv_failed = plan.fired().len() > fired_before;
    let res2 = p.residuals();
    let coef2 = p.coefs();
    // repeated queries are identical
    let same = |a: &Option<DVector<T>>, b: &Option<DVector<T>>| match (a, b) {
        (None, None) => true,
        (Some(x), Some(y)) => x.len() == y.len() && x.iter().zip(y.iter()).all(|(u, v)| u.bits() == v.bits()),
        _ => false,
    };
    if !same(&res, &res2) || coef.as_ref().map(|c| c.iter().map(|v| v.bits()).collect::<Vec<_>>()) != coef2.as_ref().map(|c| c.iter().map(|v| v.bits()).collect::<Vec<_>>()) {
        out.problems.push(("query-changed-state".into(), format!("{}: residuals/coefficients differ before and after a jacobian() query", at)));
    }
    if res.is_some() != coef.is_some() {
        out.problems.push(("half-present".into(), format!("{}: residuals present = {}, coefficients present = {}", at, res.is_some(), coef.is_some())));
    }
    match update_failed {
        Some(true) => {
            // the model failed while parameters were being applied / the basis evaluated
            if res.is_some() || coef.is_some() || jac.is_some() {
                out.problems.push((
                    "present-after-failed-update".into(),
                    format!("{}: the model reported an error during the parameter update but the problem exposes residuals={} coefficients={} jacobian={}", at, res.is_some(), coef.is_some(), jac.is_some()),
                ));
            } else {
                *out.info.entry("absent_after_failed_update".into()).or_insert(0) += 1;
            }
        }
        Some(false) => {
            if res.is_none() || coef.is_none() {
                out.problems.push(("absent-after-successful-update".into(), format!("{}: update succeeded (no model error) but residuals/coefficients are absent", at)));
            }
        }
        None => {}
    }
    if deriv_failed {
        if jac.is_some() {
            out.problems.push(("jacobian-despite-failed-derivative".into(), format!("{}: a partial derivative failed but jacobian() returned a matrix", at)));
        } else {
            *out.info.entry("jacobian_none_on_failed_derivative".into()).or_insert(0) += 1;
        }
    } else if res.is_some() && jac.is_none() {
        out.problems.push(("jacobian-absent-without-failure".into(), format!("{}: residuals present, no derivative failed, but jacobian() is None", at)));
    }
    // present => correct for the parameters the problem reports
    if res.is_some() || coef.is_some() {
        let fresh = env.fresh_at(sc, params.as_slice());
        let rb: Option<Vec<u64>> = res.as_ref().map(|r| r.iter().map(|v| v.bits()).collect());
        let cb: Option<Vec<u64>> = coef.as_ref().map(|c| c.iter().map(|v| v.bits()).collect());
        if rb.is_some() && rb != fresh.res {
            out.problems.push(("stale-residuals".into(), format!("{}: residuals are present but are not those of a fresh problem at the reported parameters {:?}", at, params.as_slice())));
        }
        if cb.is_some() && cb != fresh.coef.as_ref().map(|c| c.2.clone()) {
            out.problems.push(("stale-coefficients".into(), format!("{}: coefficients are present but are not those of a fresh problem at the reported parameters {:?}", at, params.as_slice())));
        }
        if let Some(j) = &jac {
            let jb: Vec<u64> = j.iter().map(|v| v.bits()).collect();
            if Some(&jb) != fresh.jac.as_ref().map(|c| &c.2) {
                out.problems.push(("stale-jacobian".into(), format!("{}: jacobian is present but differs from a fresh problem at the reported parameters", at)));
            }
        }
        *out.info.entry("present_and_correct".into()).or_insert(0) += 1;
    }
}

fn run_script<T: Sc>(env: &Env<T>, sc: &Scen, phase: Phase, hist: &[usize], plan: Arc<FaultPlan>) -> Outcome {
    let mut out = Outcome { calls: 0, problems: vec![], info: Default::default() };
    let r = guarded(|| {
        let mut o = Outcome { calls: 0, problems: vec![], info: Default::default() };
        let f0 = plan.fired().len();
        let mut p = env.build(sc, plan.clone());
        // construction: one parameter update at the model's parameters
        let failed = plan.fired().iter().skip(f0).any(|(_, k)| *k == "set_params" || *k == "eval");
        checked_observe(env, sc, p.as_ref(), &plan, Some(failed), &mut o, "after build");
        match phase {
            Phase::History => {
                for (step, &ai) in hist.iter().enumerate() {
                    let f1 = plan.fired().len();
                    p.set(&vec_t::<T>(&env.alphas[ai]));
                    let failed = plan.fired().iter().skip(f1).any(|(_, k)| *k == "set_params" || *k == "eval") || env.alphas[ai].len() != sc.fam.p();
                    checked_observe(env, sc, p.as_ref(), &plan, Some(failed), &mut o, &format!("after set_params #{} (alpha {})", step, ai));
                }
            }
            Phase::Fit | Phase::FitStats => {
                let f1 = plan.fired().len();
                let (fit, stats) = if phase == Phase::FitStats { p.fit_stats(LevenbergMarquardt::new()) } else { (p.fit(LevenbergMarquardt::new()), None) };
                let fired_in_fit = plan.fired().len() > f1 || failed;
                *o.info.entry(format!("termination:{}", fit.termination.split(['(', '{', ' ']).next().unwrap_or(""))).or_insert(0) += 1;
                if phase == Phase::Fit && (fit.ok != fit.report_successful || fit.was_successful != fit.report_successful) {
                    o.problems.push(("ok-iff-successful".into(), format!("fit returned {} but termination {} was_successful = {} / {}", if fit.ok { "Ok" } else { "Err" }, fit.termination, fit.report_successful, fit.was_successful)));
                }
                let fp = fit.problem();
                let present = fp.residuals().is_some() || fp.coefs().is_some();
                if fired_in_fit && fit.ok && present && phase == Phase::Fit {
                    o.problems.push(("fit-ok-after-failure".into(), format!("a model call failed during the fit, fit returned Ok ({}) and the result exposes residuals/coefficients", fit.termination)));
                }
                if fired_in_fit && !fit.ok {
                    *o.info.entry("fit_err_after_failure".into()).or_insert(0) += 1;
                }
                if fired_in_fit && fit.ok && !present {
                    *o.info.entry("fit_ok_absent_state".into()).or_insert(0) += 1;
                }
                if phase == Phase::FitStats {
                    let any = fired_in_fit; // failures during construction or during fit_with_statistics itself
                    if any && stats.is_some() {
                        o.problems.push(("statistics-ok-after-failure".into(), "a model call failed but fit_with_statistics returned Ok".into()));
                    }
                    if any && stats.is_none() {
                        *o.info.entry("fit_with_statistics_err_after_failure".into()).or_insert(0) += 1;
                    }
                    if !any && stats.is_none() {
                        *o.info.entry("fit_with_statistics_err_without_failure".into()).or_insert(0) += 1;
                    }
                }
                // the returned problem: present => correct, queries consistent (no further expectation about presence)
                let before = plan.fired().len();
                let _ = before;
                checked_observe(env, sc, fp, &plan, None, &mut o, "result of fit");
            }
        }
        o
    });
    match r {
        Ok(o) => out = o,
        Err(msg) => out.problems.push(("panic".into(), format!("panicked: {}", msg))),
    }
    out.calls = plan.calls();
    out
}

fn histories(depth: usize, nalpha: usize) -> Vec<Vec<usize>> {
    let mut all = vec![vec![]];
    let mut frontier = vec![vec![]];
    for _ in 0..depth {
        let mut next = vec![];
        for h in &frontier {
            for a in 0..nalpha {
                let mut v: Vec<usize> = h.clone();
                v.push(a);
                next.push(v);
            }
        }
        all.extend(next.iter().cloned());
        frontier = next;
    }
    all
}

fn sweep<T: Sc>(ctx: &Ctx, sc: &Scen, depth: usize, only: Option<(Phase, Vec<usize>, u64, FaultMode, OnFailedSet)>) {
    let env = Env::<T>::new(sc);
    let mut jobs: Vec<(Phase, Vec<usize>)> = vec![];
    for h in histories(depth, env.alphas.len()) {
        if !h.is_empty() {
            jobs.push((Phase::History, h));
        }
    }
    // C04 only needs the fits (fault at every model call of a whole fit): `--phases fit`
    let fit_only = ctx.args.extra.get("phases").map(|p| p == "fit").unwrap_or(false);
    // `--phases fitstats`: fit_with_statistics only (the build profile with debug assertions and overflow checks runs this one)
    let stats_only = ctx.args.extra.get("phases").map(|p| p == "fitstats").unwrap_or(false);
    if fit_only || stats_only {
        jobs.clear();
    }
    if !stats_only {
        jobs.push((Phase::Fit, vec![]));
    }
    if sc.s == 1 && !fit_only {
        jobs.push((Phase::FitStats, vec![]));
    }
    if let Some((ph, h, k, mode, ofs)) = only {
        let plan = FaultPlan::new(k, mode, ofs);
        let o = run_script(&env, sc, ph, &h, plan);
        report(ctx, sc, ph, &h, k, mode, ofs, &o);
        return;
    }
    for (ph, h) in jobs {
        // baseline: no fault
        let base = run_script(&env, sc, ph, &h, FaultPlan::never());
        report(ctx, sc, ph, &h, u64::MAX, FaultMode::Transient, OnFailedSet::Keep, &base);
        ctx.with(|s| {
            s.inc("baseline_traces");
            s.add("states", 1);
        });
        // a fit that needs more than 1500 model calls is not expected on any tree that satisfies the properties (patience is
        // 100 x (P+1)); beyond that the fault index is capped and the cap is reported (evidence: caps_hit, exhaustive = false)
        let n = base.calls.min(1500);
        if base.calls > 1500 {
            ctx.with(|s| {
                s.inc("caps_hit");
                s.notes.push(format!("fault sweep capped at call index 1500 of {} ({:?})", base.calls, ph));
            });
        }
        for k in 0..n {
            for mode in [FaultMode::Transient, FaultMode::Persistent] {
                for ofs in [OnFailedSet::Keep, OnFailedSet::Store] {
                    ctx.tick();
                    let plan = FaultPlan::new(k, mode, ofs);
                    let o = run_script(&env, sc, ph, &h, plan.clone());
                    report(ctx, sc, ph, &h, k, mode, ofs, &o);
                    ctx.with(|s| {
                        s.inc("evaluations");
                        s.inc("fault_runs");
                        if !plan.fired().is_empty() {
                            s.inc("distinct_nontrivial");
                            s.bucket("first_failed_call_kind", plan.fired()[0].1);
                        }
                    });
                }
            }
        }
    }
}

fn report(ctx: &Ctx, sc: &Scen, ph: Phase, h: &[usize], k: u64, mode: FaultMode, ofs: OnFailedSet, o: &Outcome) {
    let cj = json!({"scenario": scen_json(sc), "phase": format!("{:?}", ph), "history": h, "fault_at": if k == u64::MAX { Value::Null } else { json!(k) }, "mode": format!("{:?}", mode), "on_failed_set": format!("{:?}", ofs)});
    ctx.with(|s| {
        for (k2, v) in &o.info {
            s.add(k2, *v);
        }
        for (sig, detail) in &o.problems {
            let prop = if sig == "jacobian-despite-failed-derivative" { "C03" } else { "C09" };
            s.violate(prop, sig, cj.clone(), detail.clone());
            if prop == "C03" {
                s.violate("C09", sig, cj.clone(), detail.clone());
            }
            // "they never panic" (C08) holds for every model honouring the trait contract - also one that fails transiently
            if sig == "panic" {
                s.violate("C08", sig, cj.clone(), detail.clone());
            }
            // "returns the fit result as Err - in every build profile, without panicking" is a clause of C12
            if ph == Phase::FitStats && (sig == "panic" || sig.starts_with("statistics-ok")) {
                s.violate("C12", sig, cj.clone(), detail.clone());
            }
            // "Ok exactly when the termination reason counts as successful" is a clause of C04
            if sig == "ok-iff-successful" {
                s.violate("C04", sig, cj.clone(), detail.clone());
            }
        }
        if k != u64::MAX && k % 7 == 3 && h.len() == 2 {
            s.sample(json!({"case": cj, "model_calls": o.calls, "observed": o.info}));
        }
    });
}

/// Realistic failing models: a model with a DOMAIN (rejects tau <= bound at set_params, at evaluation or in the
/// derivatives) fitted from starts whose trial steps cross the bound.  No injected index: the optimizer decides
/// where the failure happens.
fn domain_fits<T: Sc>(ctx: &Ctx, thorough: bool) {
    domain_fits_filtered::<T>(ctx, thorough, None)
}

/// `only` = the case description of a replay: every case is generated, only the matching one runs
fn domain_fits_filtered<T: Sc>(ctx: &Ctx, thorough: bool, only: Option<&Value>) {
    use std::sync::atomic::Ordering;
    let fams = [Family::Exp1Off, Family::Exp2Off];
    let mut idx = 1_000_000u64;
    for fam in fams {
        let (a, _) = truth(&fam);
        for at in [RejectAt::Set, RejectAt::Eval, RejectAt::Deriv] {
            for bound_frac in [0.5, 0.9, 0.99, 1.01] {
                for start in [1.02, 1.3, 2.0, 4.0] {
                    for (s, par) in [(1usize, false), (2, true), (1, true)] {
                        for patience in [2usize, 100] {
                            for prov in [Prov::Hand, Prov::Built] {
                                if !thorough && (prov == Prov::Built) != (s == 2) {
                                    continue;
                                }
                                idx += 1;
                                if only.is_none() && !ctx.args.mine(idx) {
                                    continue;
                                }
                                ctx.tick();
                                let n = 12;
                                let spec = spec_for(&fam, n);
                                let mut y = DMatrix::<f64>::zeros(n, s);
                                for c in 0..s {
                                    y.set_column(c, &data(&spec, 1.0 + c as f64, 1e-2, 1 + c as u64, 17));
                                }
                                let yt: DMatrix<T> = mat_t(&y);
                                let bound = a[0] * bound_frac;
                                let a0: Vec<f64> = a.iter().map(|v| v * start).collect();
                                let case = json!({"domain_fit": {"family": fam.name(), "reject_at": format!("{:?}", at), "reject_when_tau0_le": bound, "start": a0, "s": s, "par": par, "patience": patience, "prov": prov.name(), "scalar": T::NAME}});
                                if let Some(o) = only {
                                    if o != &case {
                                        continue;
                                    }
                                }
                                let api = if s == 1 { Api::Single } else { Api::Mrhs };
                                let mk = |alpha: &[T]| Domain::wrap(make_t::<T>(&spec, prov, alpha), at, 0, bound);
                                let a0t: Vec<T> = a0.iter().map(|&v| T::f(v)).collect();
                                let r = guarded(|| {
                                    let (model, errs) = ErrCounter::wrap(mk(&a0t));
                                    let p = prob::build(model, &yt, None, None, api, par).unwrap();
                                    let e0 = errs.load(Ordering::SeqCst);
                                    let solver = LevenbergMarquardt::<T>::new().with_patience(patience);
                                    let (fit, stats) = if s == 1 { p.fit_stats(solver) } else { (p.fit(solver), None) };
                                    let e1 = errs.load(Ordering::SeqCst);
                                    let fp = fit.problem();
                                    let obs = observe(fp);
                                    (fit.ok, fit.was_successful, stats.is_some(), e1 - e0, e0, obs, fit.termination.clone())
                                });
                                ctx.with(|st| {
                                    st.inc("evaluations");
                                    st.inc("domain_fits");
                                });
                                let (ok, successful, has_stats, errs_in_fit, errs_before, obs, term) = match r {
                                    Err(m) => {
                                        ctx.with(|st| st.violate("C09", "panic", case.clone(), format!("panicked: {}", m)));
                                        continue;
                                    }
                                    Ok(x) => x,
                                };
                                let _ = (ok, errs_before);
                                ctx.with(|st| st.bucket("domain_fit_outcome", &format!("{}{}", term.split(['(', '{', ' ']).next().unwrap_or(""), if errs_in_fit > 0 { "+model-errors" } else { "" })));
                                if errs_in_fit > 0 {
                                    ctx.with(|st| st.inc("distinct_nontrivial"));
                                    if successful && obs.present() {
                                        // admissible only if the failing call was a derivative inside a jacobian() whose None ended the fit - then it is not successful
                                        ctx.with(|st| st.violate("C09", "fit-ok-after-failure", case.clone(), format!("the model reported {} error(s) during the fit, yet the fit is successful ({}) and exposes values", errs_in_fit, term)));
                                    }
                                    if has_stats {
                                        ctx.with(|st| st.violate("C09", "statistics-ok-after-failure", case.clone(), "model errors during the fit but fit_with_statistics returned Ok".into()));
                                    }
                                }
                                // present => correct for the reported parameters
                                if obs.present() {
                                    let pt = obs.params_t();
                                    let fresh = prob::build(mk(&pt), &yt, None, None, api, false).unwrap();
                                    let fo = observe(fresh.as_ref());
                                    if fo.res != obs.res || fo.coef != obs.coef {
                                        ctx.with(|st| st.violate("C09", "stale-values", case.clone(), format!("residuals/coefficients after the fit are not those of a fresh problem at the reported parameters {:?}", pt)));
                                    }
                                }
                            }
                        }
                    }
                }
            }
        }
    }
}

fn scenarios(thorough: bool) -> Vec<Scen> {
    let mut v = vec![];
    let fams = [Family::Exp1Off, Family::Exp2Off, Family::OLeary];
    for (fi, fam) in fams.iter().enumerate() {
        for prov in [Prov::Hand, Prov::Built] {
            for (s, par) in [(1usize, false), (2, false), (1, true), (2, true)] {
                for (w, start) in [(WKind::None, 1.04), (WKind::Ramp, 1.6), (WKind::InvSigma, 0.55)] {
                    for f32_ in [false, true] {
                        if !thorough {
                            // quick: Z1 + Z2, one start each, f64, both flavours
                            if fi == 2 || f32_ || (w != WKind::None && !(fi == 1 && w == WKind::Ramp && prov == Prov::Hand)) || (par && prov == Prov::Built) {
                                continue;
                            }
                        }
                        v.push(Scen { fam: fam.clone(), n: 8 + 2 * fi, s, prov, par, w, f32_, start, precomputing: false });
                        if prov == Prov::Hand && !f32_ && (thorough || (w == WKind::None && s == 1)) {
                            v.push(Scen { fam: fam.clone(), n: 8 + 2 * fi, s, prov, par, w, f32_, start, precomputing: true });
                        }
                    }
                }
            }
        }
    }
    // large parallel problems (the Jacobian has more than 2^15 entries): work-splitting thresholds of the parallel code
    v.push(Scen { fam: Family::ExpN(4), n: 128, s: 70, prov: Prov::Hand, par: true, w: WKind::None, f32_: false, start: 1.04, precomputing: false });
    if thorough {
        v.push(Scen { fam: Family::ExpN(4), n: 8200, s: 1, prov: Prov::Hand, par: true, w: WKind::Ramp, f32_: false, start: 1.04, precomputing: false });
        v.push(Scen { fam: Family::ExpN(4), n: 128, s: 70, prov: Prov::Hand, par: true, w: WKind::Ramp, f32_: true, start: 1.04, precomputing: false });
    }
    v
}

fn main() {
    engine_main("faults", |ctx: Arc<Ctx>| {
        let depth: usize = ctx.args.extra.get("depth").map(|s| s.parse().unwrap()).unwrap_or(if ctx.args.thorough() { 3 } else { 2 });
        if let Some(r) = &ctx.args.replay {
            let v: Value = serde_json::from_str(r).unwrap();
            if let Some(d) = v.get("domain_fit") {
                // the quick and the thorough tier generate different subsets: look in the larger one
                if d["scalar"] == "f32" {
                    domain_fits_filtered::<f32>(&ctx, true, Some(&v));
                } else {
                    domain_fits_filtered::<f64>(&ctx, true, Some(&v));
                }
                return;
            }
            let sc = scen_parse(&v["scenario"]);
            let ph = match v["phase"].as_str().unwrap() {
                "History" => Phase::History,
                "Fit" => Phase::Fit,
                _ => Phase::FitStats,
            };
            let h: Vec<usize> = v["history"].as_array().unwrap().iter().map(|x| x.as_u64().unwrap() as usize).collect();
            let k = v["fault_at"].as_u64().unwrap_or(u64::MAX);
            let mode = if v["mode"] == "Transient" { FaultMode::Transient } else { FaultMode::Persistent };
            let ofs = if v["on_failed_set"] == "Keep" { OnFailedSet::Keep } else { OnFailedSet::Store };
            if sc.f32_ {
                sweep::<f32>(&ctx, &sc, depth, Some((ph, h, k, mode, ofs)));
            } else {
                sweep::<f64>(&ctx, &sc, depth, Some((ph, h, k, mode, ofs)));
            }
            return;
        }
        let fit_only = ctx.args.extra.get("phases").map(|p| p == "fit" || p == "fitstats").unwrap_or(false);
        if !fit_only {
            domain_fits::<f64>(&ctx, ctx.args.thorough());
            if ctx.args.thorough() {
                domain_fits::<f32>(&ctx, true);
            }
        }
        for (i, sc) in scenarios(ctx.args.thorough()).iter().enumerate() {
            if !ctx.args.mine(i as u64) {
                continue;
            }
            ctx.begin_desc(i as u64, scen_json(sc));
            if sc.f32_ {
                sweep::<f32>(&ctx, sc, depth, None);
            } else {
                sweep::<f64>(&ctx, sc, depth, None);
            }
        }
    });
}
