//! E2 – property C04 (with C08/C09 menu entries): the optimizer's decision space,
//! explored by OWNING the model's answers.  `Scripted` is a legitimate separable
//! model (M = 1 basis function, N = 2 samples, P in {1,2}) whose value at a
//! parameter vector is drawn from a script the first time that vector is
//! applied and is remembered afterwards (so it is a function of alpha).  The
//! basis is (cos t, sin t) against y = (1, 0): the projected residual norm is
//! exactly |sin t|, so each script entry decides how good a trial point is and
//! what slope the optimizer is told.  Scripts are explored depth-first with
//! DEVIATION BOUNDING: entry 0 ("much better, consistent slope") is the default
//! answer, any other answer costs one deviation; every leaf is one complete real
//! `fit()` on the real LevMarProblem + levenberg-marquardt.
use levenberg_marquardt::LevenbergMarquardt;
use nalgebra::{DMatrix, DVector, Dyn, OMatrix, OVector};
use serde_json::{json, Value};
use std::collections::BTreeMap;
use std::sync::{Arc, Mutex};
use varpro::prelude::SeparableNonlinearModel;
use vpmc::prob::{self, observe, Api};
use vpmc::run::*;
use vpmc::zoo::{DynModel, MErr, BM};

#[derive(Debug, Clone, Copy, PartialEq)]
enum Item {
    /// residual = best_so_far * factor (capped at 1), derivative slope
    Val { factor: f64, slope: f64 },
    NaN,
    Inf,
    Err,
}

fn menu(with_faults: bool) -> Vec<Item> {
    let mut m = vec![];
    for factor in [0.5, 1.0 - 1e-5, 1.0, 1.5, 0.0, 0.999] {
        for slope in [1.0, -1.0, 0.0, 1e8, 1e-3] {
            m.push(Item::Val { factor, slope });
        }
    }
    if with_faults {
        m.push(Item::NaN);
        m.push(Item::Inf);
        m.push(Item::Err);
    }
    m
}

#[derive(Debug, Clone, Copy)]
enum Entry {
    Val { theta: f64, slope: f64 },
    NaN,
    Inf,
    Err,
}

struct Table {
    map: BTreeMap<Vec<u64>, Entry>,
    script: Vec<usize>,
    drawn: usize,
    best: f64,
    menu: Vec<Item>,
    set_log: Vec<Vec<u64>>,
    evals: u64,
    fault_seen: bool,
}

impl Table {
    fn entry_for(&mut self, key: &[u64]) -> Entry {
        if let Some(e) = self.map.get(key) {
            return *e;
        }
        let idx = self.script.get(self.drawn).copied().unwrap_or(0);
        self.drawn += 1;
        let e = match self.menu[idx] {
            Item::Val { factor, slope } => {
                let res = if self.drawn == 1 { 0.8 * if factor == 0.0 { 0.0 } else { 1.0 } } else { (self.best * factor).min(1.0) };
                let res = if self.drawn == 1 && factor != 0.0 { 0.8 } else { res };
                if res < self.best {
                    self.best = res;
                }
                Entry::Val { theta: res.asin(), slope }
            }
            Item::NaN => Entry::NaN,
            Item::Inf => Entry::Inf,
            Item::Err => Entry::Err,
        };
        self.map.insert(key.to_vec(), e);
        e
    }
}

struct Scripted {
    p: usize,
    a: DVector<f64>,
    table: Arc<Mutex<Table>>,
}
impl Scripted {
    fn key(&self) -> Vec<u64> {
        self.a.iter().map(|v| v.to_bits()).collect()
    }
}
impl SeparableNonlinearModel for Scripted {
    type ScalarType = f64;
    type Error = MErr;
    fn parameter_count(&self) -> usize {
        self.p
    }
    fn base_function_count(&self) -> usize {
        1
    }
    fn output_len(&self) -> usize {
        2
    }
    fn set_params(&mut self, parameters: OVector<f64, Dyn>) -> Result<(), MErr> {
        if parameters.len() != self.p {
            return Err(MErr::Model("wrong parameter count".into()));
        }
        self.table.lock().unwrap().set_log.push(parameters.iter().map(|v| v.to_bits()).collect());
        self.a = parameters;
        Ok(())
    }
    fn params(&self) -> OVector<f64, Dyn> {
        self.a.clone()
    }
    fn eval(&self) -> Result<OMatrix<f64, Dyn, Dyn>, MErr> {
        let mut t = self.table.lock().unwrap();
        t.evals += 1;
        match t.entry_for(&self.key()) {
            Entry::Val { theta, .. } => Ok(DMatrix::from_column_slice(2, 1, &[theta.cos(), theta.sin()])),
            Entry::NaN => {
                t.fault_seen = true;
                Ok(DMatrix::from_column_slice(2, 1, &[f64::NAN, 1.0]))
            }
            Entry::Inf => {
                t.fault_seen = true;
                Ok(DMatrix::from_column_slice(2, 1, &[1.0, f64::INFINITY]))
            }
            Entry::Err => {
                t.fault_seen = true;
                Err(MErr::Domain)
            }
        }
    }
    fn eval_partial_deriv(&self, k: usize) -> Result<OMatrix<f64, Dyn, Dyn>, MErr> {
        if k >= self.p {
            return Err(MErr::Model("index".into()));
        }
        let mut t = self.table.lock().unwrap();
        match t.entry_for(&self.key()) {
            Entry::Val { theta, slope } => {
                let s = slope * if k == 0 { 1.0 } else { 0.5 };
                Ok(DMatrix::from_column_slice(2, 1, &[-s * theta.sin(), s * theta.cos()]))
            }
            Entry::NaN => Ok(DMatrix::from_column_slice(2, 1, &[f64::NAN, f64::NAN])),
            Entry::Inf => Ok(DMatrix::from_column_slice(2, 1, &[f64::INFINITY, 0.0])),
            Entry::Err => Err(MErr::Domain),
        }
    }
}
impl DynModel<f64> for Scripted {
    fn clone_box(&self) -> Box<dyn DynModel<f64>> {
        Box::new(Scripted { p: self.p, a: self.a.clone(), table: self.table.clone() })
    }
}

#[derive(Debug, Clone, Copy, PartialEq)]
struct Cfg {
    p: usize,
    patience: usize,
    tol: u8,
    stepbound: f64,
    par: bool,
    faults: bool,
}
impl Cfg {
    fn solver(&self) -> LevenbergMarquardt<f64> {
        let s = LevenbergMarquardt::new().with_patience(self.patience).with_stepbound(self.stepbound);
        match self.tol {
            0 => s,
            1 => s.with_tol(1e-3),
            _ => s.with_ftol(0.0).with_xtol(0.0).with_gtol(0.0),
        }
    }
    fn json(&self) -> Value {
        let tolname = ["default", "loose(1e-3)", "zero"][self.tol as usize];
        json!({"p": self.p, "patience": self.patience, "tol": tolname, "stepbound": self.stepbound, "par": self.par, "faults": self.faults})
    }
    fn parse(v: &Value) -> Cfg {
        Cfg {
            p: v["p"].as_u64().unwrap() as usize,
            patience: v["patience"].as_u64().unwrap() as usize,
            tol: match v["tol"].as_str().unwrap() {
                "default" => 0,
                "loose(1e-3)" => 1,
                _ => 2,
            },
            stepbound: v["stepbound"].as_f64().unwrap(),
            par: v["par"].as_bool().unwrap(),
            faults: v["faults"].as_bool().unwrap(),
        }
    }
}

struct RunInfo {
    drawn: usize,
    termination: String,
}

fn run_one(ctx: &Ctx, cfg: &Cfg, script: &[usize]) -> RunInfo {
    let mn = menu(cfg.faults);
    let table = Arc::new(Mutex::new(Table { map: Default::default(), script: script.to_vec(), drawn: 0, best: 1.0, menu: mn.clone(), set_log: vec![], evals: 0, fault_seen: false }));
    let case = || json!({"cfg": cfg.json(), "script": script, "script_items": script.iter().map(|&i| format!("{:?}", mn[i])).collect::<Vec<_>>()});
    let a0 = DVector::from_element(cfg.p, 1.0);
    let y = DMatrix::from_column_slice(2, 1, &[1.0, 0.0]);
    let t2 = table.clone();
    let r = guarded(move || {
        let model = BM(Box::new(Scripted { p: cfg.p, a: a0, table: t2.clone() }));
        let problem = prob::build(model, &y, None, None, Api::Single, cfg.par).expect("builds");
        let init_obj = problem.residuals().map(|r| 0.5 * r.norm_squared());
        let (sets_before, evals_before, fault_before) = {
            let t = t2.lock().unwrap();
            (t.set_log.len(), t.evals, t.fault_seen)
        };
        let fit = problem.fit(cfg.solver());
        (fit, init_obj, sets_before, evals_before, fault_before)
    });
    let (fit, init_obj, sets_before, evals_before, fault_before) = match r {
        Err(msg) => {
            ctx.with(|s| {
                s.violate("C08", "panic:scripted-fit", case(), format!("panicked: {}", msg));
                s.violate("C04", "panic:scripted-fit", case(), format!("panicked: {}", msg));
            });
            let d = table.lock().map(|t| t.drawn).unwrap_or(0);
            return RunInfo { drawn: d, termination: "PANIC".into() };
        }
        Ok(x) => x,
    };
    let (drawn, evals_in_fit, sets, fault_seen) = {
        let t = table.lock().unwrap();
        (t.drawn, t.evals - evals_before, t.set_log[sets_before..].to_vec(), t.fault_seen)
    };
    let term = fit.termination.split(['(', '{', ' ']).next().unwrap_or("").to_string();
    let ended_with_reset = sets.len() >= 2 && sets[..sets.len() - 1].contains(&sets[sets.len() - 1]);
    ctx.with(|s| {
        s.inc("evaluations");
        s.inc("traces_validated");
        s.add("transitions", sets.len() as u64 + 1);
        s.bucket("termination", &format!("{}:{}{}", if fit.ok { "Ok" } else { "Err" }, term, if ended_with_reset { "+reset" } else { "" }));
    });
    // ---- oracle ----
    if fit.ok != fit.report_successful || fit.was_successful != fit.report_successful {
        ctx.with(|s| s.violate("C04", "ok-iff-successful", case(), format!("fit returned {} but termination {} has was_successful() = {} (FitResult::was_successful() = {})", if fit.ok { "Ok" } else { "Err" }, fit.termination, fit.report_successful, fit.was_successful)));
    }
    let budget = (cfg.patience * (cfg.p + 1)) as u64;
    if fit.n_eval as u64 > budget || evals_in_fit > budget {
        ctx.with(|s| s.violate("C04", "evaluation-budget-exceeded", case(), format!("reported evaluations {}, model evaluations during fit {}, budget {}", fit.n_eval, evals_in_fit, budget)));
    }
    if fault_seen || fault_before {
        // a model failure / non-finite value was met: the fit must not be reported successful unless it was confined to
        // the optimizer's final re-application, in which case nothing may be exposed
        let p = fit.problem();
        let present = p.residuals().is_some();
        if fit.ok && present {
            // legitimate only if the faulty point was never the current point of the result
            let key: Vec<u64> = fit.alpha().iter().map(|v| v.to_bits()).collect();
            let e = table.lock().unwrap().map.get(&key).copied();
            if !matches!(e, Some(Entry::Val { .. })) {
                ctx.with(|s| s.violate("C09", "ok-with-state-at-failing-point", case(), "fit Ok exposing values although the model fails / is non-finite at the returned parameters".into()));
            }
        }
        ctx.with(|s| s.inc("fits_with_fault_entries"));
    }
    if fit.ok {
        let key: Vec<u64> = fit.alpha().iter().map(|v| v.to_bits()).collect();
        let e = table.lock().unwrap().map.get(&key).copied();
        match e {
            Some(Entry::Val { theta, .. }) => {
                let p = fit.problem();
                let (Some(c), Some(res)) = (p.coefs(), p.residuals()) else {
                    if !fault_seen {
                        ctx.with(|s| s.violate("C04", "successful-without-state", case(), "Ok result without coefficients/residuals although the model never failed".into()));
                    }
                    return RunInfo { drawn, termination: term };
                };
                let want_c = theta.cos();
                if !((c[(0, 0)] - want_c).abs() <= 1e-12) {
                    ctx.with(|s| s.violate("C04", "coefficient-not-optimal", case(), format!("coefficient {:e}, optimal cos(theta) = {:e}", c[(0, 0)], want_c)));
                }
                let want_r = [1.0 - theta.cos() * theta.cos(), -theta.sin() * theta.cos()];
                if !((res[0] - want_r[0]).abs() <= 1e-12 && (res[1] - want_r[1]).abs() <= 1e-12) {
                    ctx.with(|s| s.violate("C04", "residuals-not-for-returned-parameters", case(), format!("residuals {:?}, expected {:?} for the returned parameters", res.as_slice(), want_r)));
                }
                let half = 0.5 * theta.sin() * theta.sin();
                if !((fit.objective - half).abs() <= 1e-10 * half + 1e-300) {
                    ctx.with(|s| s.violate("C04", "objective-not-half-squared-residuals", case(), format!("objective {:e}, 1/2 sin^2(theta) = {:e}", fit.objective, half)));
                }
                if let Some(i0) = init_obj {
                    if !(fit.objective <= i0 * (1.0 + 1e-15)) {
                        ctx.with(|s| s.violate("C04", "objective-increased", case(), format!("objective {:e} exceeds the objective at the initial guess {:e}", fit.objective, i0)));
                    }
                }
                // coherent with a fresh problem at the returned parameters (same remembered answers)
                let fresh = prob::build(BM(Box::new(Scripted { p: cfg.p, a: fit.alpha(), table: table.clone() })), &DMatrix::from_column_slice(2, 1, &[1.0, 0.0]), None, None, Api::Single, false).unwrap();
                if observe(fresh.as_ref()) != observe(p) {
                    ctx.with(|s| s.violate("C04", "final-state-not-fresh-state", case(), "returned problem differs from a fresh problem at the returned parameters".into()));
                }
                ctx.with(|s| s.inc("distinct_nontrivial"));
            }
            _ => {
                if !fault_seen {
                    ctx.with(|s| s.violate("C04", "returned-parameters-never-evaluated", case(), "the returned parameters were never evaluated by the model".into()));
                }
            }
        }
    }
    if drawn <= 6 && script.len() == drawn {
        ctx.with(|s| s.sample(json!({"case": case(), "termination": fit.termination, "evaluations": fit.n_eval})));
    }
    RunInfo { drawn, termination: term }
}

fn deviations(script: &[usize]) -> usize {
    script.iter().filter(|&&i| i != 0).count()
}

fn explore(ctx: &Ctx, cfg: &Cfg, prefix: Vec<usize>, depth: usize, bound: usize, msize: usize, runs: &mut u64) {
    ctx.tick();
    let info = run_one(ctx, cfg, &prefix);
    *runs += 1;
    let _ = info.termination;
    let lim = info.drawn.min(depth);
    if deviations(&prefix) >= bound {
        return;
    }
    for pos in prefix.len()..lim {
        for alt in 1..msize {
            let mut s = prefix.clone();
            s.resize(pos, 0);
            s.push(alt);
            explore(ctx, cfg, s, depth, bound, msize, runs);
        }
    }
}

fn main() {
    engine_main("fitenv", |ctx: Arc<Ctx>| {
        if let Some(r) = &ctx.args.replay {
            let v: Value = serde_json::from_str(r).unwrap();
            let cfg = Cfg::parse(&v["cfg"]);
            let script: Vec<usize> = v["script"].as_array().unwrap().iter().map(|x| x.as_u64().unwrap() as usize).collect();
            run_one(&ctx, &cfg, &script);
            return;
        }
        let thorough = ctx.args.thorough();
        let depth: usize = ctx.args.extra.get("depth").map(|s| s.parse().unwrap()).unwrap_or(if thorough { 6 } else { 4 });
        let bound: usize = ctx.args.extra.get("deviations").map(|s| s.parse().unwrap()).unwrap_or(if thorough { 3 } else { 2 });
        let mut cfgs = vec![];
        for p in [1usize, 2] {
            for patience in [1usize, 2, 6, 100] {
                for tol in [0u8, 1, 2] {
                    for stepbound in [0.1, 100.0] {
                        for par in [false, true] {
                            for faults in [false, true] {
                                if !thorough && ((par && (tol != 0 || stepbound < 1.0)) || (p == 2 && patience == 2)) {
                                    continue;
                                }
                                cfgs.push(Cfg { p, patience, tol, stepbound, par, faults });
                            }
                        }
                    }
                }
            }
        }
        // unit of sharding: (configuration, first deviation) so that shards are balanced
        let mut unit = 0u64;
        let mut runs = 0u64;
        for cfg in &cfgs {
            let msize = menu(cfg.faults).len();
            // the all-default script and its subtree rooted at each first deviation
            if ctx.args.mine(unit) {
                ctx.begin_desc(unit, cfg.json());
                let info = run_one(&ctx, cfg, &[]);
                runs += 1;
                ctx.with(|s| s.add("default_script_draws", info.drawn as u64));
            }
            unit += 1;
            // probe how many entries the default run draws, to know the positions
            let probe = {
                let silent = Ctx::new(ctx.args.clone());
                run_one(&silent, cfg, &[]).drawn
            };
            for pos in 0..probe.min(depth) {
                for alt in 1..msize {
                    if ctx.args.mine(unit) {
                        ctx.begin_desc(unit, json!({"cfg": cfg.json(), "first_deviation": [pos, alt]}));
                        let mut s = vec![0usize; pos];
                        s.push(alt);
                        explore(&ctx, cfg, s, depth, bound, msize, &mut runs);
                    }
                    unit += 1;
                }
            }
        }
        ctx.with(|s| {
            s.add("states", runs);
            s.maxes.insert("deviation_bound_completed".into(), bound as f64);
            s.maxes.insert("script_depth".into(), depth as f64);
        });
    });
}
