//! E3 – complete product grids of REAL fits (real models, real levenberg-marquardt)
//! serving the whole-fit clauses of C02, C04, C05, C06, C07 and C11.
//! Every case is one (or a few, for twins / pools / permutations) complete `fit`
//! whose result is judged against reference computations.
use levenberg_marquardt::LevenbergMarquardt;
use nalgebra::{DMatrix, DVector};
use serde_json::{json, Value};
use std::sync::Arc;
use vpmc::gen::*;
use vpmc::num::*;
use vpmc::oracle::*;
use vpmc::prob::{self, observe, Api, FitOut, Prob};
use vpmc::refla;
use vpmc::run::*;
use vpmc::wrap::*;
use vpmc::zoo::*;

#[global_allocator]
static ALLOC: vpmc::poison::Poison = vpmc::poison::Poison;

#[derive(Debug, Clone, Copy, PartialEq)]
enum Tol {
    Default,
    Loose,
    /// ftol = xtol = gtol = 0: only the machine-precision exits remain
    Zero,
}
#[derive(Debug, Clone, Copy, PartialEq)]
struct SolverCfg {
    patience: usize,
    tol: Tol,
    stepbound: f64,
}
impl SolverCfg {
    fn default_() -> Self {
        SolverCfg { patience: 100, tol: Tol::Default, stepbound: 100.0 }
    }
    fn make<T: Sc>(&self) -> LevenbergMarquardt<T> {
        let mut s = LevenbergMarquardt::<T>::new().with_patience(self.patience).with_stepbound(T::f(self.stepbound));
        match self.tol {
            Tol::Default => {}
            Tol::Loose => s = s.with_tol(T::f(1e-3)),
            Tol::Zero => s = s.with_ftol(T::f(0.0)).with_xtol(T::f(0.0)).with_gtol(T::f(0.0)),
        }
        s
    }
}

#[derive(Debug, Clone)]
struct Case {
    fam: Family,
    /// generating nonlinear parameters
    alpha: Vec<f64>,
    /// generating coefficients, one vector per right-hand side
    coefs: Vec<Vec<f64>>,
    n: usize,
    prov: Prov,
    f32_: bool,
    par: bool,
    mrhs_api: bool,
    w: WKind,
    level: f64,
    noise_variant: u64,
    /// start = alpha * mult (component-wise)
    start_mult: Vec<f64>,
    solver: SolverCfg,
    /// number of rayon worker threads for the C11 pool sweep (0 = not used)
    pool: usize,
    /// user-chosen singular value threshold (None = default)
    eps: Option<f64>,
    /// length of the sample grid in units of the largest decay constant (None = 4)
    span: Option<f64>,
}

fn fam_tag(f: &Family) -> &'static str {
    match f {
        Family::Exp1Off => "Exp1Off",
        Family::Exp2Off => "Exp2Off",
        Family::Exp3 => "Exp3",
        Family::GaussDecayOff => "GaussDecayOff",
        Family::OLeary => "OLeary",
        _ => "other",
    }
}
fn fam_from(s: &str) -> Family {
    Family::from_json(&json!(s))
}
fn wk_json(w: &WKind) -> Value {
    w.to_json()
}
fn wk_parse(v: &Value) -> WKind {
    WKind::from_json(v)
}
fn case_json(c: &Case) -> Value {
    json!({"fam": fam_tag(&c.fam), "alpha": c.alpha, "coefs": c.coefs, "n": c.n, "prov": c.prov.name(), "scalar": if c.f32_ {"f32"} else {"f64"}, "par": c.par, "mrhs_api": c.mrhs_api,
           "w": wk_json(&c.w), "level": c.level, "noise_variant": c.noise_variant, "start_mult": c.start_mult,
           "solver": {"patience": c.solver.patience, "tol": format!("{:?}", c.solver.tol), "stepbound": c.solver.stepbound}, "pool": c.pool, "eps": c.eps, "span": c.span})
}
fn case_parse(v: &Value) -> Case {
    let fv = |x: &Value| -> Vec<f64> { x.as_array().unwrap().iter().map(|y| y.as_f64().unwrap()).collect() };
    Case {
        fam: fam_from(v["fam"].as_str().unwrap()),
        alpha: fv(&v["alpha"]),
        coefs: v["coefs"].as_array().unwrap().iter().map(fv).collect(),
        n: v["n"].as_u64().unwrap() as usize,
        prov: if v["prov"] == "hand" { Prov::Hand } else { Prov::Built },
        f32_: v["scalar"] == "f32",
        par: v["par"].as_bool().unwrap(),
        mrhs_api: v["mrhs_api"].as_bool().unwrap(),
        w: wk_parse(&v["w"]),
        level: v["level"].as_f64().unwrap(),
        noise_variant: v["noise_variant"].as_u64().unwrap(),
        start_mult: fv(&v["start_mult"]),
        solver: SolverCfg {
            patience: v["solver"]["patience"].as_u64().unwrap() as usize,
            tol: match v["solver"]["tol"].as_str().unwrap() {
                "Default" => Tol::Default,
                "Loose" => Tol::Loose,
                _ => Tol::Zero,
            },
            stepbound: v["solver"]["stepbound"].as_f64().unwrap(),
        },
        pool: v["pool"].as_u64().unwrap() as usize,
        eps: v["eps"].as_f64(),
        span: v.get("span").and_then(|x| x.as_f64()),
    }
}

struct Setup<T: Sc> {
    spec: ModelSpec,
    y: DMatrix<T>,
    y_clean_noiseless: bool,
    w: Option<DVector<T>>,
    a0: Vec<T>,
    api: Api,
}

fn tau_max(c: &Case) -> f64 {
    match c.fam {
        Family::Exp1Off => c.alpha[0],
        Family::Exp2Off => c.alpha[0].max(c.alpha[1]),
        Family::Exp3 => c.alpha.iter().cloned().fold(0.0, f64::max),
        Family::GaussDecayOff => c.alpha[2].max(c.alpha[0]),
        _ => 1.0,
    }
}

fn setup<T: Sc>(c: &Case, seed: u64) -> Setup<T> {
    let x = match c.fam {
        Family::OLeary => linspace(0.0, 1.5, c.n),
        Family::GaussDecayOff => linspace(0.0, 2.0 * c.alpha[0] + 2.0 * c.alpha[2], c.n),
        _ => linspace(0.0, c.span.unwrap_or(4.0) * tau_max(c), c.n),
    };
    let spec = ModelSpec::new(c.fam.clone(), x);
    let phi = spec.eval_ref::<f64>(&c.alpha);
    let s = c.coefs.len();
    let mut y = DMatrix::<f64>::zeros(c.n, s);
    for (si, cf) in c.coefs.iter().enumerate() {
        let y0 = &phi * DVector::from_vec(cf.clone());
        let mx = y0.amax();
        let nz = noise(c.n, c.noise_variant, seed.wrapping_add(si as u64 * 7919));
        for i in 0..c.n {
            y[(i, si)] = y0[i] + c.level * mx * nz[i];
        }
    }
    Setup {
        spec,
        y: mat_t(&y),
        y_clean_noiseless: c.level == 0.0,
        w: c.w.make(c.n).map(|w| vec_t::<T>(&w)),
        a0: c.alpha.iter().zip(c.start_mult.iter()).map(|(a, m)| T::f(a * m)).collect(),
        api: if c.mrhs_api { Api::Mrhs } else { Api::Single },
    }
}

fn term_class(t: &str) -> String {
    t.split(['(', '{', ' ']).next().unwrap_or("").to_string()
}

struct Outcome<T: Sc> {
    fit: FitOut<T>,
    model_evals_in_fit: u64,
    set_params_in_fit: u64,
    initial_objective: f64,
    calls: Vec<Call>,
}

fn run_fit<T: Sc>(c: &Case, su: &Setup<T>, par: bool, keep_calls: bool) -> Result<Outcome<T>, String> {
    let base = make_t::<T>(&su.spec, c.prov, &su.a0);
    let (model, log) = Recording::wrap(base, true);
    let problem = prob::build(model, &su.y, su.w.as_ref(), c.eps.map(|e| T::f(e)), su.api, par)?;
    let init_obj = problem.residuals().map(|r| 0.5 * vec_d(&r).norm_squared()).unwrap_or(f64::NAN);
    let before = log.snapshot().len();
    // every other parallel case is converted to its sequential form BEFORE fitting: the converted problem must carry
    // a state the sequential code can continue from (C11: conversion preserves the state)
    let problem = if par && (c.n + c.noise_variant as usize + c.coefs.len()) % 2 == 0 { problem.into_sequential() } else { problem };
    let fit = problem.fit(c.solver.make::<T>());
    let calls: Vec<Call> = log.snapshot().into_iter().skip(before).collect();
    let evals = calls.iter().filter(|c| matches!(c, Call::Eval)).count() as u64;
    let sets = calls.iter().filter(|c| matches!(c, Call::SetParams(_))).count() as u64;
    Ok(Outcome { fit, model_evals_in_fit: evals, set_params_in_fit: sets, initial_objective: init_obj, calls: if keep_calls { calls } else { vec![] } })
}

/// wrss at given alpha (T-rounded) and coefficients, computed by the harness in f64
fn wrss<T: Sc>(su: &Setup<T>, alpha: &[T], coef: &DMatrix<f64>) -> (f64, DMatrix<f64>) {
    let phi = su.spec.eval_ref::<T>(alpha);
    let wv: Option<Vec<f64>> = su.w.as_ref().map(|w| w.iter().map(|v| v.d()).collect());
    let r = refla::row_scale(wv.as_deref(), &(mat_d(&su.y) - &phi * coef));
    (r.iter().map(|v| v * v).sum(), r)
}

fn check_c05<T: Sc>(ctx: &Ctx, c: &Case, su: &Setup<T>, o: &Outcome<T>) {
    let cj = || case_json(c);
    let cat = format!("{}:ratio{}:n{}:level{:e}:{}", fam_tag(&c.fam), if c.alpha.len() > 1 { (c.alpha[1] / c.alpha[0]).round() } else { 0.0 }, c.n, c.level, if c.f32_ { "f32" } else { "f64" });
    let v0 = ctx.with(|s| s.violation_count);
    let fit = &o.fit;
    ctx.with(|s| s.bucket("termination", &term_class(&fit.termination)));
    if !fit.ok {
        ctx.with(|s| {
            s.violate("C05", "fit-failed", cj(), format!("fit returned Err with termination {} on a certified instance", fit.termination));
            s.bucket("failing_category", &cat);
        });
        return;
    }
    let (Some(coef), (Some(bf), _)) = (fit.coef(), fit.best_fit()) else {
        ctx.with(|s| s.violate("C05", "no-coefficients", cj(), "successful fit without coefficients / best fit".into()));
        return;
    };
    let coef = mat_d(&coef);
    let alpha_hat: Vec<T> = fit.alpha().iter().cloned().collect();
    let yd = mat_d(&su.y);
    let ynorm = refla::fro(&yd);
    if su.y_clean_noiseless {
        let d = refla::fro(&(mat_d(&bf) - &yd));
        let tol = if c.f32_ { 2e-5 } else { 1e-9 } * ynorm;
        ctx.with(|s| s.max("C05_noiseless_reproduction", d / tol));
        if !(d <= tol) {
            ctx.with(|s| s.violate("C05", "noiseless-not-reproduced", cj(), format!("||best_fit - y|| = {:e} > {:e}", d, tol)));
        }
    }
    // never worse than the generating parameters
    let ctrue = DMatrix::from_fn(c.fam.m(), c.coefs.len(), |j, s| c.coefs[s][j]);
    let atrue: Vec<T> = c.alpha.iter().map(|&v| T::f(v)).collect();
    let (w_fit, r_fit) = wrss(su, &alpha_hat, &coef);
    let (w_true, _) = wrss(su, &atrue, &ctrue);
    let wv: Option<Vec<f64>> = su.w.as_ref().map(|w| w.iter().map(|v| v.d()).collect());
    let wy = refla::fro(&refla::row_scale(wv.as_deref(), &yd));
    let slack = (1e3 * T::EPS * wy).powi(2);
    ctx.with(|s| s.max("C05_wrss_vs_truth", if w_true + slack > 0.0 { w_fit / (w_true + slack) } else { 0.0 }));
    if !(w_fit <= w_true + slack) {
        ctx.with(|s| s.violate("C05", "worse-than-generating-parameters", cj(), format!("weighted sum of squares at the fit {:e} exceeds that of the generating parameters {:e}", w_fit, w_true)));
    }
    // stationarity against the REFERENCE Kaufman Jacobian at the returned point
    let rnorm = refla::fro(&r_fit);
    let small = if c.f32_ { 1e-5 } else { 1e-10 } * wy;
    if rnorm > small {
        let r = reference::<T>(&su.spec, &alpha_hat, &su.y, su.w.as_ref(), c.eps.map(|e| T::f(e).d().abs()).unwrap_or(T::EPS), false);
        if let (RankClass::Full, Some(svd)) = (r.class, &r.svd) {
            let tol = if c.f32_ { 5e-2 } else { 1e-5 };
            for k in 0..c.fam.p() {
                let dk = refla::row_scale(r.w.as_deref(), &su.spec.deriv_ref::<T>(k, &alpha_hat));
                let jk = -svd.proj_perp(&(&dk * &coef), 0.0);
                let g: f64 = jk.iter().zip(r_fit.iter()).map(|(a, b)| a * b).sum();
                let jn = refla::fro(&jk);
                let ratio = g.abs() / (tol * jn * rnorm).max(1e-300);
                ctx.with(|s| s.max("C05_stationarity", ratio));
                if !(ratio <= 1.0) {
                    ctx.with(|s| s.violate("C05", "not-stationary", cj(), format!("parameter {}: |J_ref^T r| = {:e} > {:e} * ||J_ref|| ||r|| ({:e}); termination {}", k, g.abs(), tol, jn * rnorm, fit.termination)));
                    break;
                }
            }
        }
    }
    // the problem handed back is itself a problem at (near) the minimiser: fitting it again succeeds and stays there
    {
        let second = guarded(|| fit.problem().clone_box().fit(c.solver.make::<T>()));
        match second {
            Err(m) => ctx.with(|s| s.violate("C05", "refit-panicked", cj(), m)),
            Ok(f2) => {
                if !f2.ok {
                    ctx.with(|s| s.violate("C05", "refit-failed", cj(), format!("fitting the returned problem again ended with {}", f2.termination)));
                } else {
                    let a2: Vec<T> = f2.alpha().iter().cloned().collect();
                    if let Some(c2) = f2.coef() {
                        let (w2, _) = wrss(su, &a2, &mat_d(&c2));
                        if !(w2 <= w_fit * (1.0 + 1e-6) + slack) {
                            ctx.with(|s| s.violate("C05", "refit-worse", cj(), format!("weighted sum of squares after refitting the returned problem {:e} exceeds {:e}", w2, w_fit)));
                        }
                    }
                    ctx.with(|s| s.inc("refits_checked"));
                }
            }
        }
    }
    ctx.with(|s| {
        s.inc("distinct_nontrivial");
        s.max("C05_max_evaluations", fit.n_eval as f64);
        if s.violation_count > v0 {
            s.bucket("failing_category", &cat);
        }
    });
}

fn check_c04<T: Sc>(ctx: &Ctx, c: &Case, su: &Setup<T>, o: &Outcome<T>) {
    let cj = || case_json(c);
    let fit = &o.fit;
    ctx.with(|s| s.bucket("termination", &format!("{}:{}", if fit.ok { "Ok" } else { "Err" }, term_class(&fit.termination))));
    if fit.ok != fit.report_successful || fit.was_successful != fit.report_successful {
        ctx.with(|s| s.violate("C04", "ok-iff-successful", cj(), format!("fit returned {} but termination {} has was_successful() = {} (FitResult::was_successful() = {})", if fit.ok { "Ok" } else { "Err" }, fit.termination, fit.report_successful, fit.was_successful)));
    }
    // evaluation budget of the configuration the caller supplied
    let budget = (c.solver.patience * (c.fam.p() + 1)) as u64;
    if fit.n_eval as u64 > budget.max(1) || o.model_evals_in_fit > budget.max(1) {
        ctx.with(|s| s.violate("C04", "evaluation-budget-exceeded", cj(), format!("reported evaluations {}, model evaluations during fit {}, budget patience*(P+1) = {}", fit.n_eval, o.model_evals_in_fit, budget)));
    }
    if !fit.ok {
        return;
    }
    // observations of order 1e160 / 1e-170: the f64 arithmetic of the reference oracles overflows / underflows itself - the
    // verdict and the budget (above) are what these cases are for
    let cmax = c.coefs.iter().flatten().fold(0.0f64, |m, v| m.max(v.abs()));
    if !(1e-100..=1e100).contains(&cmax) {
        ctx.with(|s| s.inc("extreme_scale_verdicts_checked"));
        return;
    }
    let p = fit.problem();
    let obs = observe(p);
    let (Some(coef), Some(res)) = (obs.coef_f64(), obs.res_f64()) else {
        ctx.with(|s| s.violate("C04", "successful-without-state", cj(), "Ok result exposes no coefficients/residuals although the model never failed".into()));
        return;
    };
    let alpha_hat: Vec<T> = fit.alpha().iter().cloned().collect();
    if obs.params != alpha_hat.iter().map(|v| v.bits()).collect::<Vec<_>>() {
        ctx.with(|s| s.violate("C04", "parameters-incoherent", cj(), "nonlinear_parameters() differs from problem.params()".into()));
    }
    if fit.coef().map(|c| mat_d(&c)) != Some(coef.clone()) {
        ctx.with(|s| s.violate("C04", "coefficients-incoherent", cj(), "FitResult::linear_coefficients differs from the problem's coefficients".into()));
    }
    // coherent state: coefficients optimal for alpha_hat, residuals = W(Y - Phi C)
    let r = reference::<T>(&su.spec, &alpha_hat, &su.y, su.w.as_ref(), c.eps.map(|e| T::f(e).d().abs()).unwrap_or(T::EPS), false);
    let mut findings = vec![];
    let mut g: Gauges = vec![];
    check_c01::<T>(&r, &obs, &mut findings, &mut g);
    check_c02_residuals::<T>(&r, &obs, &mut findings, &mut g);
    for f in findings {
        ctx.with(|s| s.violate("C04", &format!("final-state:{}", f.signature), cj(), f.detail));
    }
    // reported objective = 1/2 ||residuals||^2
    let half = 0.5 * res.norm_squared();
    let objv = fit.objective.d();
    let rel = if c.f32_ { 1e-5 } else { 1e-12 };
    // in the subject's scalar type 1/2||r||^2 may overflow (f32 data of order 1e24): then the reported objective is +inf
    let tmax = if c.f32_ { 3.4028235e38 } else { f64::MAX };
    let tmin = if c.f32_ { 1.4e-45 } else { 5e-324 };
    let overflowed = (half > tmax && objv == f64::INFINITY) || (half < 4.0 * tmin && objv >= 0.0 && objv <= 4.0 * tmin);
    if !overflowed && !((objv - half).abs() <= rel * half.max(1e-300) + 1e-300) {
        ctx.with(|s| s.violate("C04", "objective-not-half-squared-residuals", cj(), format!("objective_function = {:e}, 1/2||residuals||^2 = {:e}", objv, half)));
    }
    // never larger than at the initial guess
    // (compared in the subject's scalar type: an initial objective beyond its range is +inf there)
    let initial_in_t = if o.initial_objective > tmax { f64::INFINITY } else { o.initial_objective };
    if !(objv <= initial_in_t * (1.0 + 4.0 * T::EPS)) {
        ctx.with(|s| s.violate("C04", "objective-increased", cj(), format!("objective {:e} at the result exceeds the objective {:e} at the initial guess", objv, o.initial_objective)));
    }
    // the returned problem is the state of a fresh problem at alpha_hat
    let fresh = prob::build(make_t::<T>(&su.spec, c.prov, &alpha_hat), &su.y, su.w.as_ref(), c.eps.map(|e| T::f(e)), su.api, false).unwrap();
    if observe(fresh.as_ref()) != obs {
        ctx.with(|s| s.violate("C04", "final-state-not-fresh-state", cj(), "the returned problem differs (bitwise) from a freshly built problem at the fitted parameters".into()));
    }
    // did the fit end on a rejected step (optimizer re-applied the accepted parameters)?
    let sets: Vec<&Vec<u64>> = o.calls.iter().filter_map(|c| if let Call::SetParams(b) = c { Some(b) } else { None }).collect();
    if sets.len() >= 2 && sets[..sets.len() - 1].iter().any(|b| *b == sets[sets.len() - 1]) {
        ctx.with(|s| s.inc("fits_ending_with_reset"));
    }
    ctx.with(|s| s.inc("distinct_nontrivial"));
}

fn check_c02<T: Sc>(ctx: &Ctx, c: &Case, su: &Setup<T>, o: &Outcome<T>) {
    let cj = || case_json(c);
    let fit = &o.fit;
    let (bf, is_vec) = fit.best_fit();
    let (Some(bf), Some(coef)) = (bf, fit.coef()) else { return };
    if is_vec != !c.mrhs_api {
        ctx.with(|s| s.violate("C02", "best-fit-shape", cj(), "best_fit has the wrong container for this API".into()));
    }
    if bf.nrows() != c.n || bf.ncols() != c.coefs.len() {
        ctx.with(|s| s.violate("C02", "best-fit-shape", cj(), format!("best_fit is {}x{}, observations are {}x{}", bf.nrows(), bf.ncols(), c.n, c.coefs.len())));
        return;
    }
    let alpha_hat: Vec<T> = fit.alpha().iter().cloned().collect();
    let phi = su.spec.eval_ref::<T>(&alpha_hat);
    let cd = mat_d(&coef);
    let want = &phi * &cd;
    let scale = refla::fro(&phi) * refla::fro(&cd);
    let tol = 16.0 * (c.fam.m() as f64 + 2.0) * T::EPS * scale;
    let d = refla::maxabs(&(mat_d(&bf) - &want));
    ctx.with(|s| s.max("C02_best_fit", d / tol.max(1e-300)));
    if !(d <= tol) {
        ctx.with(|s| s.violate("C02", "best-fit-not-Phi*C", cj(), format!("max |best_fit - Phi(alpha)C| = {:e} > {:e} (weights {:?})", d, tol, c.w)));
    }
    if fit.alpha().iter().map(|v| v.bits()).collect::<Vec<_>>() != fit.problem().params().iter().map(|v| v.bits()).collect::<Vec<_>>() {
        ctx.with(|s| s.violate("C02", "nonlinear-parameters-not-problem-params", cj(), "FitResult::nonlinear_parameters differs from problem.params()".into()));
    }
    // optimizer-driven history == caller-driven history: replay the recorded parameter sequence by hand
    let mut p2 = prob::build(make_t::<T>(&su.spec, c.prov, &su.a0), &su.y, su.w.as_ref(), c.eps.map(|e| T::f(e)), su.api, c.par).unwrap();
    let mut nset = 0;
    for call in &o.calls {
        if let Call::SetParams(b) = call {
            p2.set(&DVector::from_vec(b.iter().map(|x| T::from_bits64(*x)).collect()));
            nset += 1;
        }
    }
    if observe(p2.as_ref()) != observe(fit.problem()) {
        ctx.with(|s| s.violate("C02", "optimizer-history-differs-from-replay", cj(), format!("replaying the {} parameter vectors the optimizer applied gives a different final state", nset)));
    }
    ctx.with(|s| {
        s.add("transitions", nset as u64 + 1);
        s.inc("distinct_nontrivial");
    });
}

fn rel_close(a: &[f64], b: &[f64], rel: f64) -> Option<String> {
    if a.len() != b.len() {
        return Some(format!("lengths {} vs {}", a.len(), b.len()));
    }
    let scale = a.iter().chain(b.iter()).fold(0.0f64, |m, v| m.max(v.abs()));
    for (x, y) in a.iter().zip(b.iter()) {
        if !((x - y).abs() <= rel * scale + 1e-300) {
            return Some(format!("{:e} vs {:e} (relative tolerance {:e}, scale {:e})", x, y, rel, scale));
        }
    }
    None
}

/// C06 on whole fits: weighted problem vs row-scaled unweighted problem (and unit weights vs none, zero weight vs deleted row)
fn check_c06_fit<T: Sc>(ctx: &Ctx, c: &Case, su: &Setup<T>) {
    let cj = || case_json(c);
    let Some(w) = su.w.clone() else { return };
    let solver = || c.solver.make::<T>();
    let build_w = || prob::build(make_t::<T>(&su.spec, c.prov, &su.a0), &su.y, Some(&w), c.eps.map(|e| T::f(e)), su.api, c.par).unwrap();
    let twin: Box<dyn Prob<T>> = match c.w {
        WKind::Ones => prob::build(make_t::<T>(&su.spec, c.prov, &su.a0), &su.y, None, c.eps.map(|e| T::f(e)), su.api, c.par).unwrap(),
        _ => {
            let mut ys = su.y.clone();
            for j in 0..ys.ncols() {
                for i in 0..ys.nrows() {
                    ys[(i, j)] = ys[(i, j)] * w[i];
                }
            }
            prob::build(RowScaled::wrap(make_t::<T>(&su.spec, c.prov, &su.a0), w.clone()), &ys, None, c.eps.map(|e| T::f(e)), su.api, c.par).unwrap()
        }
    };
    // the twin is built: the weighted problem, which by the property yields the same, must be built as well
    if let Err(e) = prob::build(make_t::<T>(&su.spec, c.prov, &su.a0), &su.y, Some(&w), c.eps.map(|e| T::f(e)), su.api, c.par) {
        ctx.with(|s| s.violate("C06", "weighted-rejected-while-twin-builds", cj(), format!("the weighted problem is rejected ({}), the row-scaled / unweighted twin is built", e)));
        return;
    }
    let stats_possible = !c.mrhs_api;
    let r = guarded(|| {
        if stats_possible {
            let (f1, s1) = build_w().fit_stats(solver());
            let (f2, s2) = twin.fit_stats(solver());
            (f1, s1, f2, s2)
        } else {
            (build_w().fit(solver()), None, twin.fit(solver()), None)
        }
    });
    let (f1, s1, f2, s2) = match r {
        Ok(x) => x,
        Err(m) => {
            ctx.with(|s| {
                s.violate("C08", "panic:fit", cj(), m);
                s.inc("blocked_cases");
            });
            return;
        }
    };
    ctx.with(|s| s.inc("evaluations"));
    let tc = |f: &FitOut<T>| term_class(&f.termination);
    if tc(&f1) != tc(&f2) || f1.was_successful != f2.was_successful {
        ctx.with(|s| s.violate("C06", "fit-termination-differs", cj(), format!("weighted fit ended {} , row-scaled fit ended {}", f1.termination, f2.termination)));
        return;
    }
    if !f1.was_successful {
        return;
    }
    let a1: Vec<f64> = f1.alpha().iter().map(|v| v.d()).collect();
    let a2: Vec<f64> = f2.alpha().iter().map(|v| v.d()).collect();
    let rel = if c.f32_ { 1e-3 } else { 1e-6 };
    let bitwise = f1.alpha().iter().zip(f2.alpha().iter()).all(|(x, y)| x.bits() == y.bits());
    ctx.with(|s| s.inc(if bitwise { "twin_fits_bitwise_equal" } else { "twin_fits_within_tolerance" }));
    if let Some(m) = rel_close(&a1, &a2, rel) {
        ctx.with(|s| s.violate("C06", "fitted-parameters-differ", cj(), format!("nonlinear parameters: {}", m)));
        return;
    }
    if let (Some(c1), Some(c2)) = (f1.coef(), f2.coef()) {
        if let Some(m) = rel_close(mat_d(&c1).as_slice(), mat_d(&c2).as_slice(), rel * 10.0) {
            ctx.with(|s| s.violate("C06", "fitted-coefficients-differ", cj(), format!("linear coefficients: {}", m)));
        }
    }
    if let (Some(r1), Some(r2)) = (f1.problem().residuals(), f2.problem().residuals()) {
        if let Some(m) = rel_close(vec_d(&r1).as_slice(), vec_d(&r2).as_slice(), rel * 100.0) {
            ctx.with(|s| s.violate("C06", "final-residuals-differ", cj(), format!("residuals: {}", m)));
        }
    }
    match (s1, s2) {
        (Some(s1), Some(s2)) => {
            let (x1, x2) = (s1.reduced_chi2().d(), s2.reduced_chi2().d());
            // floor: residuals at rounding level of the data (interpolating fits) have a reduced chi2 that is pure rounding noise
            let ynorm = su.y.iter().zip((0..su.y.len()).map(|i| w[i % w.len()].d())).map(|(y, wi)| (y.d() * wi).powi(2)).sum::<f64>().sqrt();
            let floor = (1024.0 * T::EPS * ynorm).powi(2);
            if !((x1 - x2).abs() <= rel * 100.0 * x1.abs().max(x2.abs()) + floor) {
                ctx.with(|s| s.violate("C06", "reduced-chi2-differs", cj(), format!("reduced chi2 {:e} (weighted) vs {:e} (row-scaled)", x1, x2)));
            }
            let (m1, m2) = (mat_d(s1.covariance_matrix()), mat_d(s2.covariance_matrix()));
            // non-finite entries (a vanishing chi2 times an overflowing inverse): the twins must agree on where they are
            if m1.iter().any(|v| !v.is_finite()) || m2.iter().any(|v| !v.is_finite()) {
                let same = m1.iter().zip(m2.iter()).all(|(a, b)| a.is_finite() == b.is_finite());
                if !same {
                    ctx.with(|s| s.violate("C06", "covariance-differs", cj(), "non-finite covariance entries in different places".into()));
                }
                ctx.with(|s| {
                    s.inc("statistics_compared");
                    s.inc("distinct_nontrivial")
                });
                return;
            }
            // both sides invert the same H^T H up to rounding: normwise agreement within K eps kappa(H^T H)
            let ev = refla::sym_eigvals(&m1);
            let (emax, emin) = (ev.iter().cloned().fold(0.0, f64::max), ev.iter().cloned().fold(f64::INFINITY, f64::min));
            let kappa = if emin > 0.0 { emax / emin } else { f64::INFINITY };
            let tolr = 4096.0 * T::EPS * kappa + rel;
            if tolr <= 0.25 {
                if let Some(m) = rel_close(m1.as_slice(), m2.as_slice(), tolr) {
                    ctx.with(|s| s.violate("C06", "covariance-differs", cj(), format!("covariance: {} (kappa {:e})", m, kappa)));
                }
                ctx.with(|s| s.inc("covariances_compared"));
            }
            ctx.with(|s| s.inc("statistics_compared"));
        }
        (None, None) => {}
        (a, b) => {
            // an (almost) singular H^T H is inverted by one twin and found exactly singular by the other: both answers are
            // rounding artefacts of an ill-posed inversion, not a difference in behaviour - judged only when the available
            // covariance is that of a well conditioned matrix
            let avail = a.as_ref().or(b.as_ref()).unwrap();
            let m = mat_d(avail.covariance_matrix());
            let ev = refla::sym_eigvals(&m);
            let (emax, emin) = (ev.iter().cloned().fold(0.0, f64::max), ev.iter().cloned().fold(f64::INFINITY, f64::min));
            let kappa = if emin > 0.0 && emax.is_finite() { emax / emin } else { f64::INFINITY };
            if 4096.0 * T::EPS * kappa <= 0.25 {
                ctx.with(|s| s.violate("C06", "statistics-availability-differs", cj(), format!("fit_with_statistics succeeds only for the {} problem (condition number of the available covariance {:e})", if a.is_some() { "weighted" } else { "row-scaled" }, kappa)));
            } else {
                ctx.with(|s| s.inc("statistics_availability_ambiguous_singular"));
            }
        }
    }
    ctx.with(|s| s.inc("distinct_nontrivial"));
}

/// C07 on whole fits: permuting the observation columns permutes the coefficient columns and leaves alpha unchanged
fn check_c07_fit<T: Sc>(ctx: &Ctx, c: &Case, su: &Setup<T>) {
    let cj = || case_json(c);
    let s_ = su.y.ncols();
    if s_ < 2 {
        return;
    }
    let fit_with = |y: &DMatrix<T>| -> FitOut<T> { prob::build(make_t::<T>(&su.spec, c.prov, &su.a0), y, su.w.as_ref(), c.eps.map(|e| T::f(e)), Api::Mrhs, c.par).unwrap().fit(c.solver.make::<T>()) };
    let base = match guarded(|| fit_with(&su.y)) {
        Ok(f) => f,
        Err(m) => {
            ctx.with(|s| {
                s.violate("C08", "panic:fit", cj(), m);
                s.inc("blocked_cases");
            });
            return;
        }
    };
    let perms: Vec<Vec<usize>> = if s_ == 2 { vec![vec![1, 0]] } else { vec![vec![1, 0, 2], vec![2, 1, 0], vec![1, 2, 0], vec![2, 0, 1], vec![0, 2, 1]] };
    for perm in perms {
        let yp = DMatrix::from_fn(c.n, s_, |i, j| su.y[(i, perm[j])]);
        let Ok(fp) = guarded(|| fit_with(&yp)) else { continue };
        ctx.with(|s| s.inc("evaluations"));
        if fp.was_successful != base.was_successful {
            ctx.with(|s| s.violate("C07", "permutation-changes-success", cj(), format!("columns permuted by {:?}: {} vs {}", perm, fp.termination, base.termination)));
            continue;
        }
        if !base.was_successful {
            continue;
        }
        let rel = if c.f32_ { 1e-3 } else { 1e-6 };
        let a1: Vec<f64> = base.alpha().iter().map(|v| v.d()).collect();
        let a2: Vec<f64> = fp.alpha().iter().map(|v| v.d()).collect();
        if let Some(m) = rel_close(&a1, &a2, rel) {
            ctx.with(|s| s.violate("C07", "permutation-changes-fitted-parameters", cj(), format!("columns permuted by {:?}: {}", perm, m)));
            continue;
        }
        if let (Some(c1), Some(c2)) = (base.coef(), fp.coef()) {
            let c1p = DMatrix::from_fn(c1.nrows(), s_, |i, j| c1[(i, perm[j])].d());
            if let Some(m) = rel_close(c1p.as_slice(), mat_d(&c2).as_slice(), rel * 10.0) {
                ctx.with(|s| s.violate("C07", "permutation-does-not-permute-coefficients", cj(), format!("columns permuted by {:?}: {}", perm, m)));
            }
        }
        ctx.with(|s| s.inc("distinct_nontrivial"));
    }
}

/// C11 on whole fits: the parallel problem under every pool size 1..16 gives bitwise the sequential fit
fn check_c11_fit<T: Sc>(ctx: &Ctx, c: &Case, su: &Setup<T>, pools: &[usize]) {
    let cj = || case_json(c);
    let seq = match guarded(|| run_fit::<T>(c, su, false, false)) {
        Ok(Ok(o)) => o,
        _ => return,
    };
    let seq_obs = observe(seq.fit.problem());
    for &k in pools {
        let pool = rayon::ThreadPoolBuilder::new().num_threads(k).build().expect("pool");
        let r = guarded(|| {
            pool.install(|| {
                let p = prob::build(make_t::<T>(&su.spec, c.prov, &su.a0), &su.y, su.w.as_ref(), c.eps.map(|e| T::f(e)), su.api, true).unwrap();
                let before = observe(p.as_ref());
                let conv = observe(p.clone_box().into_sequential().as_ref());
                (before == conv, p.fit(c.solver.make::<T>()))
            })
        });
        ctx.with(|s| {
            s.inc("evaluations");
            s.bucket("pool_size", &format!("{:02}", k));
        });
        let (conv_ok, par) = match r {
            Ok(x) => x,
            Err(m) => {
                ctx.with(|s| s.violate("C11", "panic:parallel-fit", cj(), m));
                continue;
            }
        };
        if !conv_ok {
            ctx.with(|s| s.violate("C11", "into-sequential-changes-state", cj(), format!("pool {}: into_sequential() changed the observable state", k)));
        }
        if par.termination != seq.fit.termination || par.n_eval != seq.fit.n_eval {
            ctx.with(|s| s.violate("C11", "parallel-fit-termination-differs", cj(), format!("pool {}: parallel {} after {} evaluations, sequential {} after {}", k, par.termination, par.n_eval, seq.fit.termination, seq.fit.n_eval)));
            continue;
        }
        if observe(par.problem()) != seq_obs || par.objective.bits() != seq.fit.objective.bits() {
            ctx.with(|s| s.violate("C11", "parallel-fit-result-differs", cj(), format!("pool {}: fitted parameters / coefficients / residuals / Jacobian differ bitwise from the sequential fit", k)));
            continue;
        }
        ctx.with(|s| s.inc("distinct_nontrivial"));
    }
}

fn truths(fam: &Family, thorough: bool) -> Vec<(Vec<f64>, Vec<f64>)> {
    let mut v = vec![];
    let c12: &[f64] = if thorough { &[0.5, 1.0, 3.0, 5.0] } else { &[1.0, 3.0] };
    match fam {
        Family::Exp1Off => {
            for tau in [0.5, 1.0, 3.0] {
                for &c1 in c12 {
                    for off in [0.0, 2.0] {
                        v.push((vec![tau], vec![c1, off]));
                    }
                }
            }
        }
        Family::Exp2Off => {
            for tau1 in [0.5, 1.0, 3.0] {
                for ratio in [3.0, 5.0, 10.0] {
                    for &c1 in c12 {
                        for &c2 in c12 {
                            for off in [0.0, 2.0] {
                                if !thorough && (c1 != c2) == (off == 0.0) {
                                    continue;
                                }
                                v.push((vec![tau1, tau1 * ratio], vec![c1, c2, off]));
                            }
                        }
                    }
                }
            }
        }
        Family::Exp3 => {
            for tau1 in [0.5, 1.0] {
                for ratio in [3.0, 5.0] {
                    for &c1 in c12 {
                        v.push((vec![tau1, tau1 * ratio, tau1 * ratio * ratio], vec![c1, 2.0, 1.5]));
                    }
                }
            }
        }
        Family::GaussDecayOff => {
            for mu in [2.0, 3.0] {
                for s in [0.4, 0.8] {
                    for tau in [1.0, 3.0] {
                        for &c1 in c12 {
                            v.push((vec![mu, s, tau], vec![c1, 2.0, 0.5]));
                        }
                    }
                }
            }
        }
        _ => {}
    }
    v
}

fn start_mults(p: usize, thorough: bool) -> Vec<Vec<f64>> {
    let ds: &[f64] = if thorough { &[-0.05, -0.02, 0.02, 0.05] } else { &[-0.05, 0.05] };
    let mut out: Vec<Vec<f64>> = vec![vec![]];
    for _ in 0..p {
        let mut next = vec![];
        for s in &out {
            for d in ds {
                let mut t = s.clone();
                t.push(1.0 + d);
                next.push(t);
            }
        }
        out = next;
    }
    out
}

fn c05_cases(thorough: bool, v: &mut dyn FnMut(Case)) {
    let fams = [Family::Exp1Off, Family::Exp2Off, Family::Exp3, Family::GaussDecayOff];
    for (fi, fam) in fams.iter().enumerate() {
        for (ti, (alpha, cf)) in truths(fam, thorough).iter().enumerate() {
            let ns: &[usize] = if thorough { &[32, 64, 200, 513, 1024] } else { &[32, 64, 257] };
            for &n in ns {
                for w in [WKind::None, WKind::Ones, WKind::Threes, WKind::Ramp, WKind::InvSigma] {
                    for (level, nv) in [(0.0, 0u64), (1e-4, 1), (1e-3, 2), (1e-2, 3), (1e-3, 0), (1e-2, 4)] {
                        for (smi, sm) in start_mults(fam.p(), thorough).iter().enumerate() {
                            for s in [1usize, 2, 3] {
                                for f32_ in [false, true] {
                                    for (prov, par) in [(Prov::Hand, false), (Prov::Built, false), (Prov::Built, true), (Prov::Hand, true)] {
                                        if f32_ && fi >= 2 {
                                            continue;
                                        }
                                        // f32 cannot resolve noise below its own rounding of the data
                                        if f32_ && level > 0.0 && level < 1e-3 {
                                            continue;
                                        }
                                        // certified region of the three-decay family: noise up to 1e-3 (sums of three exponentials are
                                        // too ill-conditioned for 1 % noise: the optimizer leaves the neighbourhood of the truth)
                                        if fi == 2 && level > 1e-3 {
                                            continue;
                                        }
                                        // with only 32 samples the fastest decay is covered by 2-3 points: noise >= 1e-3 (three decays)
                                        // resp. >= 1e-2 (two decays with ratio 3) makes the instance non-identifiable in practice
                                        if n < 64 && fi == 2 && level >= 1e-3 {
                                            continue;
                                        }
                                        // two decays + offset: 1 % bounded noise is outside the small-noise regime (measured over seeds:
                                        // some realisations drive a decay constant far away); certified up to 1e-3
                                        if fi == 1 && level > 1e-3 {
                                            continue;
                                        }
                                        if !thorough {
                                            let h = ti + smi + s + (n / 32) + nv as usize + (prov == Prov::Built) as usize + par as usize;
                                            if h % 7 != 0 && !(par && w == WKind::Ramp && h % 3 == 0) {
                                                continue;
                                            }
                                        } else if (ti + smi + s + nv as usize) % 3 != 0 && fi >= 1 {
                                            continue;
                                        }
                                        let coefs: Vec<Vec<f64>> = (0..s).map(|k| cf.iter().enumerate().map(|(j, c)| c * (1.0 + 0.5 * k as f64) + 0.25 * (k * (j + 1)) as f64).collect()).collect();
                                        v(Case { fam: fam.clone(), alpha: alpha.clone(), coefs, n, prov, f32_, par, mrhs_api: s > 1 || (ti + smi) % 2 == 1, w, level, noise_variant: nv, start_mult: sm.clone(), solver: SolverCfg::default_(), pool: 0, eps: if (ti + smi + n) % 5 == 0 { Some(if (ti + smi) % 2 == 0 { 1e-3 } else { 1e-2 }) } else { None }, span: None });
                                    }
                                }
                            }
                        }
                    }
                }
            }
        }
    }
}

/// sample grids so long that the tail of the decay underflows gradually: the function matrix contains denormal entries
/// (f32: beyond 87 decay constants, f64: beyond 708) - still a certified instance, the information is in the first samples
fn c05_long_grid_cases(_thorough: bool, v: &mut dyn FnMut(Case)) {
    for (alpha, cf) in truths(&Family::Exp1Off, false) {
        for (f32_, n, span) in [(true, 128usize, 100.0), (false, 2048, 730.0)] {
            for (level, nv) in [(0.0, 0u64), (1e-3, 1)] {
                for (prov, par) in [(Prov::Hand, false), (Prov::Built, true)] {
                    for w in [WKind::None, WKind::Ones] {
                        v(Case { fam: Family::Exp1Off, alpha: alpha.clone(), coefs: vec![cf.clone()], n, prov, f32_, par, mrhs_api: false, w, level, noise_variant: nv, start_mult: vec![1.05], solver: SolverCfg::default_(), pool: 0, eps: None, span: Some(span) });
                    }
                }
            }
        }
    }
}

fn c04_cases(thorough: bool, v: &mut dyn FnMut(Case)) {
    let fams = [Family::Exp1Off, Family::Exp2Off, Family::GaussDecayOff, Family::OLeary];
    let solvers: Vec<SolverCfg> = {
        let mut s = vec![];
        for patience in [1usize, 2, 6, 100] {
            for tol in [Tol::Default, Tol::Loose, Tol::Zero] {
                for stepbound in [0.1, 100.0] {
                    s.push(SolverCfg { patience, tol, stepbound });
                }
            }
        }
        s
    };
    for (fi, fam) in fams.iter().enumerate() {
        let (alpha, cf) = match fam {
            Family::OLeary => truth(fam),
            _ => truths(fam, false)[1].clone(),
        };
        let p = fam.p();
        let mut starts: Vec<Vec<f64>> = vec![vec![1.05; p], vec![0.95; p], vec![0.2; p], vec![5.0; p], vec![1.0; p]];
        let mut flipped = vec![1.3; p];
        flipped[0] = -1.0;
        starts.push(flipped);
        starts.push((0..p).map(|k| if k % 2 == 0 { 3.0 } else { 0.4 }).collect());
        for (si, sm) in starts.iter().enumerate() {
            for (ci, solver) in solvers.iter().enumerate() {
                for w in [WKind::None, WKind::Ramp, WKind::ZeroAt(1), WKind::Threes, WKind::Tiny] {
                    for (level, nv) in [(0.0, 0u64), (1e-2, 2)] {
                        // 11 and 70 right-hand sides: past the block sizes of column-blocked implementations, not multiples of 8 / 64
                        for s in [1usize, 2, 11, 70] {
                            for (prov, par, f32_) in [(Prov::Hand, false, false), (Prov::Built, true, false), (Prov::Hand, false, true), (Prov::Built, false, false)] {
                                if s > 2 && (ci % 6 != 0 || si > 2 || f32_ || (s == 70 && (!thorough || w != WKind::Ramp))) {
                                    continue;
                                }
                                if !thorough && s <= 2 && (fi + si + ci + s + nv as usize + par as usize) % 5 != 0 {
                                    continue;
                                }
                                if !thorough && s > 2 && (fi + si + nv as usize) % 2 != 0 {
                                    continue;
                                }
                                let coefs: Vec<Vec<f64>> = (0..s).map(|k| cf.iter().map(|c| c * (1.0 + 0.5 * k as f64)).collect()).collect();
                                v(Case { fam: fam.clone(), alpha: alpha.clone(), coefs, n: 24, prov, f32_, par, mrhs_api: s > 1, w, level, noise_variant: nv, start_mult: sm.clone(), solver: *solver, pool: 0, eps: if (si + ci) % 3 == 0 { Some([1e-3, 1e-2, -1e-6][(si + ci) / 3 % 3]) } else { None }, span: None });
                            }
                        }
                    }
                }
            }
        }
    }
}

/// whole fits on the (N, S) shape grid (byte-sized block limits of column-blocked code)
fn c04_shape_cases(thorough: bool, v: &mut dyn FnMut(Case)) {
    let fam = Family::Exp2Off;
    let (alpha, cf) = truths(&fam, false)[1].clone();
    for n in [64usize, 257, 512, 1025] {
        for s in [5usize, 7, 20, 33] {
            for f32_ in [false, true] {
                for par in [false, true] {
                    if !thorough && (n / 64 + s + f32_ as usize + par as usize) % 3 != 1 {
                        continue;
                    }
                    let coefs: Vec<Vec<f64>> = (0..s).map(|k| cf.iter().map(|c| c * (1.0 + 0.25 * k as f64)).collect()).collect();
                    v(Case { fam: fam.clone(), alpha: alpha.clone(), coefs, n, prov: Prov::Hand, f32_, par, mrhs_api: true, w: if s % 2 == 0 { WKind::Ramp } else { WKind::None }, level: 1e-3, noise_variant: 1, start_mult: vec![1.05; fam.p()], solver: SolverCfg::default_(), pool: 0, eps: None, span: None });
                }
            }
        }
    }
}

/// observations so large that 1/2 ||r||^2 overflows the scalar type although every residual is finite (f32: 1e24, f64: 1e160),
/// and so small that it underflows (1e-30 / 1e-170): the verdict must still follow the optimizer's termination reason
fn c04_scale_cases(_thorough: bool, v: &mut dyn FnMut(Case)) {
    for fam in [Family::Exp1Off, Family::Exp2Off] {
        let (alpha, cf) = truths(&fam, false)[1].clone();
        for f32_ in [false, true] {
            for scale in if f32_ { [1e24, 1e-30] } else { [1e160, 1e-170] } {
                for s in [1usize, 2] {
                    for par in [false, true] {
                        for (level, nv) in [(1e-2, 2u64), (0.0, 0)] {
                            let coefs: Vec<Vec<f64>> = (0..s).map(|k| cf.iter().map(|c| c * scale * (1.0 + 0.5 * k as f64)).collect()).collect();
                            v(Case { fam: fam.clone(), alpha: alpha.clone(), coefs, n: 24, prov: Prov::Hand, f32_, par, mrhs_api: s > 1, w: WKind::None, level, noise_variant: nv, start_mult: vec![1.05; fam.p()], solver: SolverCfg::default_(), pool: 0, eps: None, span: None });
                        }
                    }
                }
            }
        }
    }
}

/// a threshold below machine epsilon is a legal request: with weights of 1e-18 every singular value of the weighted basis
/// matrix lies between such a threshold and machine epsilon, and the fit must still be the weighted fit
fn c04_subeps_cases(_thorough: bool, v: &mut dyn FnMut(Case)) {
    for fam in [Family::Exp1Off, Family::Exp2Off] {
        let (alpha, cf) = truths(&fam, false)[1].clone();
        for f32_ in [false, true] {
            for eps in [1e-30, 0.0, -1e-25] {
                for s in [1usize, 2] {
                    for par in [false, true] {
                        let coefs: Vec<Vec<f64>> = (0..s).map(|k| cf.iter().map(|c| c * (1.0 + 0.5 * k as f64)).collect()).collect();
                        v(Case { fam: fam.clone(), alpha: alpha.clone(), coefs, n: 24, prov: Prov::Hand, f32_, par, mrhs_api: s > 1, w: WKind::Atto, level: 1e-2, noise_variant: 2, start_mult: vec![1.05; fam.p()], solver: SolverCfg::default_(), pool: 0, eps: Some(eps), span: None });
                    }
                }
            }
        }
    }
}

fn dispatch<T: Sc>(ctx: &Ctx, c: &Case, prop: &str, seed: u64) {
    let su = setup::<T>(c, seed);
    let cj = case_json(c);
    match prop {
        "C06" => return check_c06_fit(ctx, c, &su),
        "C07" => return check_c07_fit(ctx, c, &su),
        "C11" => {
            let all: Vec<usize> = (1..=16).collect();
            let few = [1usize, 2, 3, 16];
            return check_c11_fit(ctx, c, &su, if ctx.args.thorough() { &all } else { &few });
        }
        _ => {}
    }
    let r = guarded(|| run_fit::<T>(c, &su, c.par, true));
    ctx.with(|s| s.inc("evaluations"));
    let o = match r {
        Err(msg) => {
            ctx.with(|s| {
                s.violate("C08", "panic:fit", cj.clone(), format!("fit panicked: {}", msg));
                s.inc("blocked_cases");
            });
            return;
        }
        Ok(Err(e)) => {
            ctx.with(|s| s.notes.push(format!("case does not build: {}", e)));
            return;
        }
        Ok(Ok(o)) => o,
    };
    match prop {
        "C05" => check_c05(ctx, c, &su, &o),
        "C04" => {
            check_c04(ctx, c, &su, &o);
        }
        "C02" => check_c02(ctx, c, &su, &o),
        _ => {}
    }
    ctx.with(|s| s.sample(json!({"case": cj, "termination": o.fit.termination, "evaluations": o.fit.n_eval, "alpha_hat": o.fit.alpha().iter().map(|v| v.d()).collect::<Vec<_>>() })));
}

fn main() {
    engine_main("fitgrid", |ctx: Arc<Ctx>| {
        let prop = ctx.args.property.clone();
        let seed: u64 = std::env::var("VERIF_SEED").ok().and_then(|s| s.parse().ok()).unwrap_or(0);
        vpmc::poison::set_poison(Some(0xFF));
        if let Some(r) = &ctx.args.replay {
            let v: Value = serde_json::from_str(r).unwrap();
            let c = case_parse(&v);
            if c.f32_ {
                dispatch::<f32>(&ctx, &c, &prop, seed)
            } else {
                dispatch::<f64>(&ctx, &c, &prop, seed)
            }
            return;
        }
        let thorough = ctx.args.thorough();
        let mut i = 0u64;
        let mut visit = |c: Case| {
            let mine = ctx.args.mine(i);
            i += 1;
            if !mine {
                return;
            }
            ctx.begin_desc(i - 1, case_json(&c));
            if c.f32_ {
                dispatch::<f32>(&ctx, &c, &prop, seed)
            } else {
                dispatch::<f64>(&ctx, &c, &prop, seed)
            }
        };
        match prop.as_str() {
            "C05" => {
                c05_cases(thorough, &mut visit);
                c05_long_grid_cases(thorough, &mut visit);
            }
            "C04" => {
                c04_cases(thorough, &mut visit);
                c04_shape_cases(thorough, &mut visit);
                c04_scale_cases(thorough, &mut visit);
                c04_subeps_cases(thorough, &mut visit);
            }
            "C02" => {
                c04_cases(thorough, &mut visit);
                let mut k = 0u64;
                c05_cases(false, &mut |c| {
                    k += 1;
                    if k % 3 == 0 {
                        visit(c)
                    }
                });
            }
            "C06" => {
                // slice of the C05 grid with every weight kind the property names
                let mut k = 0u64;
                c05_cases(false, &mut |mut c| {
                    k += 1;
                    // KeepOnly(M+P): exactly as many samples with a non-zero weight as there are parameters, N larger
                    let mp = c.fam.m() + c.fam.p();
                    let kinds = [WKind::Ones, WKind::Threes, WKind::Ramp, WKind::InvSigma, WKind::Spread, WKind::Tiny, WKind::Dyadic, WKind::NegAt(3), WKind::ZeroAt(1), WKind::KeepOnly(mp), WKind::KeepOnly(mp + 1), WKind::NegRamp, WKind::NegRampZeroAt(2), WKind::Astro, WKind::Mask(1), WKind::Signs];
                    if c.w != WKind::None && (thorough || k % 4 == 0) {
                        c.w = kinds[(k as usize / 4) % kinds.len()];
                        visit(c)
                    }
                });
            }
            "C07" => {
                let mut k = 0u64;
                c05_cases(false, &mut |mut c| {
                    k += 1;
                    if c.coefs.len() >= 2 && (thorough || k % 3 == 0) {
                        c.mrhs_api = true;
                        visit(c)
                    }
                });
            }
            "C11" => {
                let mut k = 0u64;
                c05_cases(false, &mut |c| {
                    k += 1;
                    if c.par && (thorough || k % 6 == 0) {
                        visit(c)
                    }
                });
                c04_cases(false, &mut |c| {
                    k += 1;
                    if c.par && (thorough || k % 4 == 0) {
                        visit(c)
                    }
                });
            }
            o => panic!("fitgrid does not serve {}", o),
        }
        ctx.with(|s| s.maxes.insert("seed".into(), seed as f64));
    });
}
