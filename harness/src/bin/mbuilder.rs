//! E8 (part 1) – property C15: exhaustive enumeration of `SeparableModelBuilder`
//! call sequences against the reference specification automaton.
//!   mode words : every word of length <= L over the 26-symbol alphabet (x 6 `new` lists)
//!   mode edits : every <= k-edit deviation of valid templates over a larger alphabet
use serde_json::{json, Value};
use std::collections::BTreeSet;
use std::sync::Arc;
use vpmc::mbref::*;
use vpmc::run::*;

fn intern(s: &str) -> &'static str {
    match s {
        "a" => "a",
        "b" => "b",
        "c" => "c",
        "d" => "d",
        "a,b" => "a,b",
        o => Box::leak(o.to_string().into_boxed_str()),
    }
}

fn sym_json(s: &Sym) -> Value {
    match s {
        Sym::Func { names, arity } => json!({"f": names, "arity": arity}),
        Sym::Pd { name, arity } => json!({"pd": name, "arity": arity}),
        Sym::Inv => json!("inv"),
        Sym::X => json!("x"),
        Sym::XEmpty => json!("x-empty"),
        Sym::Init(n) => json!({"init": n}),
    }
}
fn sym_parse(v: &Value) -> Sym {
    if v == "inv" {
        return Sym::Inv;
    }
    if v == "x" {
        return Sym::X;
    }
    if v == "x-empty" {
        return Sym::XEmpty;
    }
    if let Some(n) = v.get("init") {
        return Sym::Init(n.as_u64().unwrap() as usize);
    }
    if let Some(n) = v.get("pd") {
        return Sym::Pd { name: intern(n.as_str().unwrap()), arity: v["arity"].as_u64().unwrap() as usize };
    }
    let names = v["f"].as_array().unwrap().iter().map(|s| intern(s.as_str().unwrap())).collect();
    Sym::Func { names, arity: v["arity"].as_u64().unwrap() as usize }
}
fn word_json(w: &Word) -> Value {
    json!({"model": w.0, "syms": w.1.iter().map(sym_json).collect::<Vec<_>>(), "calls": show_word(w)})
}
fn word_parse(v: &Value) -> Word {
    (
        v["model"].as_array().unwrap().iter().map(|s| intern(s.as_str().unwrap())).collect(),
        v["syms"].as_array().unwrap().iter().map(sym_parse).collect(),
    )
}

fn news() -> Vec<Vec<&'static str>> {
    vec![vec!["a"], vec!["a", "b"], vec!["b", "a"], vec!["a", "a"], vec!["a,b"], vec![]]
}

/// the 26-symbol alphabet of DESIGN.md (C15, enumeration A), simplest first
fn alphabet_small() -> Vec<Sym> {
    let mut v = vec![Sym::X, Sym::Inv];
    for n in [1usize, 2, 0, 3] {
        v.push(Sym::Init(n));
    }
    let lists: Vec<Vec<&'static str>> = vec![vec!["a"], vec!["b"], vec!["a", "b"], vec!["b", "a"], vec!["c"], vec!["a", "a"], vec![]];
    for l in &lists {
        for ar in [1usize, 2] {
            v.push(Sym::Func { names: l.clone(), arity: ar });
        }
    }
    for n in ["a", "b", "c"] {
        for ar in [1usize, 2] {
            v.push(Sym::Pd { name: n, arity: ar });
        }
    }
    assert_eq!(v.len(), 26);
    v
}

/// larger pool used for edits (arity up to 3, more name lists)
fn alphabet_large() -> Vec<Sym> {
    let mut v = vec![Sym::X, Sym::Inv];
    for n in 0..5usize {
        v.push(Sym::Init(n));
    }
    let lists: Vec<Vec<&'static str>> = vec![
        vec!["a"],
        vec!["b"],
        vec!["c"],
        vec!["d"],
        vec!["a", "b"],
        vec!["b", "a"],
        vec!["b", "c"],
        vec!["c", "a"],
        vec!["a", "a"],
        vec!["a,b"],
        vec!["a", "b", "c"],
        vec!["c", "a", "b"],
        vec![],
    ];
    for l in &lists {
        for ar in [1usize, 2, 3] {
            v.push(Sym::Func { names: l.clone(), arity: ar });
        }
    }
    for n in ["a", "b", "c", "d"] {
        for ar in [1usize, 2, 3] {
            v.push(Sym::Pd { name: n, arity: ar });
        }
    }
    v
}

fn f(names: &[&'static str]) -> Sym {
    Sym::Func { names: names.to_vec(), arity: names.len() }
}
fn pd(name: &'static str, ar: usize) -> Sym {
    Sym::Pd { name, arity: ar }
}

fn templates() -> Vec<Word> {
    vec![
        (vec!["a"], vec![f(&["a"]), pd("a", 1), Sym::X, Sym::Init(1)]),
        (vec!["a"], vec![Sym::X, Sym::Init(1), Sym::Inv, f(&["a"]), pd("a", 1)]),
        (vec!["a", "b"], vec![f(&["a"]), pd("a", 1), f(&["b"]), pd("b", 1), Sym::Inv, Sym::X, Sym::Init(2)]),
        (vec!["a", "b"], vec![Sym::Init(2), f(&["b", "a"]), pd("a", 2), pd("b", 2), Sym::X]),
        (vec!["b", "a"], vec![Sym::Inv, f(&["a", "b"]), pd("b", 2), pd("a", 2), Sym::X, Sym::Inv, Sym::Init(2)]),
        (vec!["a", "b"], vec![f(&["a", "b"]), pd("a", 2), pd("b", 2), f(&["a"]), pd("a", 1), Sym::X, Sym::Init(2)]),
        (vec!["a", "b", "c"], vec![f(&["c", "a", "b"]), pd("b", 3), pd("c", 3), pd("a", 3), Sym::X, Sym::Init(3)]),
        (vec!["a", "b", "c"], vec![Sym::X, f(&["a"]), pd("a", 1), Sym::Inv, f(&["b", "c"]), pd("c", 2), pd("b", 2), Sym::Init(3)]),
        (vec!["a", "b", "c"], vec![f(&["a", "b"]), pd("a", 2), pd("b", 2), f(&["c", "a"]), pd("a", 2), pd("c", 2), Sym::Init(3), Sym::X, Sym::X]),
        (vec!["c", "b", "a"], vec![Sym::Init(3), Sym::Init(3), f(&["b"]), pd("b", 1), f(&["a", "b", "c"]), pd("a", 3), pd("b", 3), pd("c", 3), Sym::Inv, Sym::X]),
    ]
}

struct Tally {
    words: u64,
    calls: u64,
    accepted: u64,
    valid_ref: u64,
    kinds: std::collections::BTreeMap<String, u64>,
}

fn check_word(ctx: &Ctx, w: &Word, t: &mut Tally, mode: &str) {
    t.words += 1;
    t.calls += w.1.len() as u64 + 2;
    let (valid, err, verdict) = judge(w);
    if valid {
        t.valid_ref += 1;
    }
    match &err {
        None => {
            if verdict.is_none() || verdict.as_ref().map(|v| v.0 == "accepted-invalid").unwrap_or(false) {
                t.accepted += 1
            }
        }
        Some(c) => *t.kinds.entry(kind_of(c).to_string()).or_insert(0) += 1,
    }
    if let Some((sig, detail)) = verdict {
        ctx.with(|s| s.violate("C15", &sig, json!({"mode": mode, "word": word_json(w)}), detail));
    }
}

fn nth_word(model: &[&'static str], alpha: &[Sym], len: usize, mut idx: u64) -> Word {
    let mut syms = vec![Sym::X; len];
    for i in (0..len).rev() {
        syms[i] = alpha[(idx % alpha.len() as u64) as usize].clone();
        idx /= alpha.len() as u64;
    }
    (model.to_vec(), syms)
}

/// Long parameter lists (9, 10 and 12 names): every position pair (i, j) of a duplicated name, in the model's list and in the
/// list of one many-parameter function - plus the valid specification itself.
fn long_lists(ctx: &Ctx, t: &mut Tally) {
    for l in [9usize, 10, 12] {
        let base: Vec<&'static str> = (0..l).map(|k| intern(&format!("q{}", k))).collect();
        let mut pairs: Vec<Option<(usize, usize)>> = vec![None];
        for i in 0..l {
            for j in (i + 1)..l {
                pairs.push(Some((i, j)));
            }
        }
        for dup in pairs {
            // (a) duplicate in the MODEL's list: single-parameter functions for every distinct name
            {
                let mut model = base.clone();
                if let Some((i, j)) = dup {
                    model[j] = model[i];
                }
                let mut syms = vec![];
                let mut seen: Vec<&'static str> = vec![];
                for n in &model {
                    if !seen.contains(n) {
                        seen.push(n);
                        syms.push(Sym::Func { names: vec![*n], arity: 1 });
                        syms.push(Sym::Pd { name: n, arity: 1 });
                    }
                }
                syms.push(Sym::X);
                syms.push(Sym::Init(l));
                check_word(ctx, &(model, syms), t, "words");
            }
            // (b) duplicate in the list of ONE function of arity l over a model of l distinct names
            {
                let mut names = base.clone();
                if let Some((i, j)) = dup {
                    names[j] = names[i];
                }
                let mut syms = vec![Sym::Func { names: names.clone(), arity: l }];
                let mut seen: Vec<&'static str> = vec![];
                for n in &names {
                    if !seen.contains(n) {
                        seen.push(n);
                        syms.push(Sym::Pd { name: n, arity: l });
                    }
                }
                // the name that the duplicate displaced still needs a function of its own
                for n in &base {
                    if !names.contains(n) {
                        syms.push(Sym::Func { names: vec![*n], arity: 1 });
                        syms.push(Sym::Pd { name: n, arity: 1 });
                    }
                }
                syms.push(Sym::X);
                syms.push(Sym::Init(l));
                check_word(ctx, &(base.clone(), syms), t, "words");
            }
        }
    }
}

fn mode_words(ctx: &Arc<Ctx>) {
    let alpha = alphabet_small();
    let lmax: usize = ctx.args.extra.get("depth").map(|s| s.parse().unwrap()).unwrap_or(if ctx.args.thorough() { 5 } else { 4 });
    let mut t = Tally { words: 0, calls: 0, accepted: 0, valid_ref: 0, kinds: Default::default() };
    let mut global: u64 = 0;
    if ctx.args.shard == 0 {
        large_models(ctx);
        long_lists(ctx, &mut t);
    }
    for (mi, model) in news().iter().enumerate() {
        for len in 0..=lmax {
            let total = (alpha.len() as u64).pow(len as u32);
            // static partition in blocks of 4096 words
            let mut start = 0u64;
            while start < total {
                let end = (start + 4096).min(total);
                let block = global;
                global += 1;
                if ctx.args.mine(block) {
                    ctx.begin(block);
                    for idx in start..end {
                        let w = nth_word(model, &alpha, len, idx);
                        check_word(ctx, &w, &mut t, "words");
                        if t.words % 200_000 == 1 && mi < 3 {
                            ctx.with(|s| s.sample(json!({"word": show_word(&w), "reference_defects": reference_defects(&w).into_iter().collect::<Vec<_>>()})));
                        }
                    }
                    ctx.tick();
                }
                start = end;
            }
        }
    }
    // names that contain one another ("a" is a substring of "ab"): every word up to length 5 (6 thorough) over an
    // 11-symbol alphabet, for both orders of the model's parameter list
    let alpha_sub: Vec<Sym> = {
        let mut v = vec![Sym::X, Sym::Init(2), Sym::Inv];
        for (names, ar) in [(vec!["a"], 1usize), (vec!["ab"], 1), (vec!["a", "ab"], 2), (vec!["ab", "a"], 2)] {
            v.push(Sym::Func { names, arity: ar });
        }
        for n in ["a", "ab"] {
            for ar in [1usize, 2] {
                v.push(Sym::Pd { name: n, arity: ar });
            }
        }
        v
    };
    let lsub = if ctx.args.thorough() { 6 } else { 5 };
    for model in [vec!["a", "ab"], vec!["ab", "a"]] {
        for len in 0..=lsub {
            let total = (alpha_sub.len() as u64).pow(len as u32);
            let mut start = 0u64;
            while start < total {
                let end = (start + 4096).min(total);
                let block = global;
                global += 1;
                if ctx.args.mine(block) {
                    ctx.begin(block);
                    for idx in start..end {
                        let w = nth_word(&model, &alpha_sub, len, idx);
                        check_word(ctx, &w, &mut t, "words");
                    }
                    ctx.tick();
                }
                start = end;
            }
        }
    }
    // two parameters, single-parameter functions only: an 8-symbol alphabet (an EMPTY independent variable included) explored to length 7 (8 thorough) - long enough for
    // specifications with two complete functions plus x and the initial guess, e.g. two functions of the SAME parameter
    let alpha_two: Vec<Sym> = vec![
        Sym::X,
        Sym::XEmpty,
        Sym::Init(2),
        Sym::Func { names: vec!["a"], arity: 1 },
        Sym::Func { names: vec!["b"], arity: 1 },
        Sym::Pd { name: "a", arity: 1 },
        Sym::Pd { name: "b", arity: 1 },
        Sym::Inv,
    ];
    let ltwo = if ctx.args.thorough() { 8 } else { 7 };
    {
        let model = vec!["a", "b"];
        for len in 5..=ltwo {
            let total = (alpha_two.len() as u64).pow(len as u32);
            let mut start = 0u64;
            while start < total {
                let end = (start + 4096).min(total);
                let block = global;
                global += 1;
                if ctx.args.mine(block) {
                    ctx.begin(block);
                    for idx in start..end {
                        let w = nth_word(&model, &alpha_two, len, idx);
                        check_word(ctx, &w, &mut t, "words");
                    }
                    ctx.tick();
                }
                start = end;
            }
        }
    }
    flush(ctx, &t, lmax as u64, "words");
}

/// Beyond the small scope: models with many parameters (valid, and with exactly one unused parameter at
/// positions around 64 and 128), built through the real builder.
fn large_models(ctx: &Ctx) {
    use nalgebra::DVector;
    use varpro::model::builder::error::ModelBuildError;
    use varpro::model::builder::SeparableModelBuilder;
    for p in [31usize, 32, 33, 63, 64, 65, 66, 100, 127, 128, 129, 200] {
        let names: Vec<String> = (0..p).map(|k| format!("p{}", k)).collect();
        let mut unused_opts: Vec<Option<usize>> = vec![None];
        for k in [0usize, 1, 31, 32, 33, 62, 63, 64, 65, 127, 128, p - 1] {
            if k < p && !unused_opts.contains(&Some(k)) {
                unused_opts.push(Some(k));
            }
        }
        for unused in unused_opts {
            let mut b = SeparableModelBuilder::<f64>::new(&names);
            for k in 0..p {
                if Some(k) == unused {
                    continue;
                }
                // alternate arity 1 and arity 2 functions (the second parameter is the next used one)
                b = b.function([names[k].clone()], |x: &DVector<f64>, a: f64| x.map(|v| v * a)).partial_deriv(names[k].clone(), |x: &DVector<f64>, _a: f64| x.clone());
            }
            let r = guarded(|| b.independent_variable(DVector::from_vec(vec![1.0, 2.0])).initial_parameters(vec![1.0; p]).build());
            ctx.with(|s| {
                s.inc("large_models");
                s.inc("states");
                s.add("transitions", 2 * p as u64 + 4);
            });
            let case = json!({"mode": "large-model", "parameters": p, "unused_parameter": unused});
            match (r, unused) {
                (Err(m), _) => ctx.with(|s| s.violate("C15", "panic:large-model", case, format!("build() panicked for a model with {} parameters: {}", p, m))),
                (Ok(Ok(_)), None) => {}
                (Ok(Err(e)), None) => ctx.with(|s| s.violate("C15", "rejected-valid", case, format!("valid model with {} parameters rejected: {:?}", p, e))),
                (Ok(Ok(_)), Some(k)) => ctx.with(|s| s.violate("C15", "accepted-invalid", case, format!("model with {} parameters accepted although parameter p{} is used by no function", p, k))),
                (Ok(Err(ModelBuildError::UnusedParameter { parameter })), Some(k)) if parameter == names[k] => {}
                (Ok(Err(e)), Some(k)) => ctx.with(|s| s.violate("C15", "wrong-kind:large-model", case, format!("parameter p{} is unused but build() returned {:?}", k, e))),
            }
        }
    }
}

fn flush(ctx: &Ctx, t: &Tally, bound: u64, mode: &str) {
    ctx.with(|s| {
        s.add("states", t.words);
        s.add("transitions", t.calls);
        s.add("traces_validated", t.words);
        s.add("evaluations", t.words);
        s.add("accepted_by_impl", t.accepted);
        s.add("valid_by_reference", t.valid_ref);
        s.add("distinct_nontrivial", t.words);
        for (k, v) in &t.kinds {
            *s.hist.entry("impl_error_kinds".into()).or_default().entry(k.clone()).or_insert(0) += v;
        }
        s.maxes.insert(format!("bound_completed_{}", mode), bound as f64);
    });
}

fn edits_of(w: &Word, pool: &[Sym], out: &mut Vec<Word>) {
    let n = w.1.len();
    // insert
    for pos in 0..=n {
        for s in pool {
            let mut v = w.1.clone();
            v.insert(pos, s.clone());
            out.push((w.0.clone(), v));
        }
    }
    // delete
    for pos in 0..n {
        let mut v = w.1.clone();
        v.remove(pos);
        out.push((w.0.clone(), v));
    }
    // substitute
    for pos in 0..n {
        for s in pool {
            if *s != w.1[pos] {
                let mut v = w.1.clone();
                v[pos] = s.clone();
                out.push((w.0.clone(), v));
            }
        }
    }
    // swap adjacent
    for pos in 0..n.saturating_sub(1) {
        if w.1[pos] != w.1[pos + 1] {
            let mut v = w.1.clone();
            v.swap(pos, pos + 1);
            out.push((w.0.clone(), v));
        }
    }
}

fn mode_edits(ctx: &Arc<Ctx>) {
    let pool = alphabet_large();
    let k: usize = ctx.args.extra.get("edits").map(|s| s.parse().unwrap()).unwrap_or(if ctx.args.thorough() { 2 } else { 1 });
    let mut t = Tally { words: 0, calls: 0, accepted: 0, valid_ref: 0, kinds: Default::default() };
    let mut global = 0u64;
    for tpl in templates() {
        // the template itself must be valid by the reference and accepted by the implementation
        assert!(reference_defects(&tpl).is_empty(), "template not valid by reference: {:?}", show_word(&tpl));
        let mut one = vec![];
        edits_of(&tpl, &pool, &mut one);
        if ctx.args.mine(global) {
            ctx.begin(global);
            check_word(ctx, &tpl, &mut t, "edits");
        }
        global += 1;
        for w1 in &one {
            if ctx.args.mine(global) {
                ctx.begin(global);
                check_word(ctx, w1, &mut t, "edits");
                if k >= 2 {
                    let mut two = vec![];
                    edits_of(w1, &pool, &mut two);
                    for w2 in &two {
                        check_word(ctx, w2, &mut t, "edits");
                    }
                    ctx.tick();
                }
                if t.words % 100_000 < 3 {
                    ctx.with(|s| s.sample(json!({"edited_template": show_word(w1), "reference_defects": reference_defects(w1).into_iter().collect::<Vec<_>>()})));
                }
            }
            global += 1;
        }
    }
    flush(ctx, &t, k as u64, "edits");
}

fn main() {
    engine_main("mbuilder", |ctx| {
        if let Some(r) = &ctx.args.replay {
            let v: Value = serde_json::from_str(r).unwrap();
            if v["mode"] == "misuse" && v.get("wrong_lengths").is_some() {
                misuse::NS.store(v["samples"].as_u64().unwrap_or(4) as usize, std::sync::atomic::Ordering::Relaxed);
                misuse::KIND.store(if v["basis_functions"].as_u64().unwrap_or(3) == 1 { 1 } else { 0 }, std::sync::atomic::Ordering::Relaxed);
                let env: Vec<(usize, usize)> = v["wrong_lengths"].as_array().unwrap().iter().map(|e| (e["slot"].as_u64().unwrap() as usize, e["len"].as_u64().unwrap() as usize)).collect();
                let seq: Vec<misuse::Op> = v["ops"].as_array().unwrap().iter().map(misuse::op_parse).collect();
                match guarded(|| misuse::run(&env, &seq)) {
                    Ok(Ok(_)) => {}
                    Ok(Err((sig, d))) => ctx.with(|s| s.violate("C17", &sig, v.clone(), d)),
                    Err(p) => ctx.with(|s| s.violate("C17", "panic", v.clone(), p)),
                }
                return;
            }
            if v["mode"] == "large-model" {
                large_models(&ctx);
                return;
            }
            if v.get("accepted_invalid_specification").is_some() {
                accepted_invalid_models(&ctx);
                return;
            }
            if v["mode"] == "routing" {
                let d = routing::desc_parse(&v["model"]);
                let r = guarded(|| if v["scalar"] == "f32" { routing::check::<f32>(&d) } else { routing::check::<f64>(&d) });
                match r {
                    Ok(Ok(())) => {}
                    Ok(Err(m)) => ctx.with(|s| s.violate("C16", "routing", v.clone(), m)),
                    Err(p) => ctx.with(|s| s.violate("C16", "panic", v.clone(), p)),
                }
                return;
            }
            let w = word_parse(&v["word"]);
            let mut t = Tally { words: 0, calls: 0, accepted: 0, valid_ref: 0, kinds: Default::default() };
            check_word(&ctx, &w, &mut t, v["mode"].as_str().unwrap_or("words"));
            let d: BTreeSet<String> = reference_defects(&w);
            let imp = guarded(|| run_impl(&w).map(|_| "Ok").map_err(|e| canon_err(&e)));
            ctx.with(|s| s.notes.push(format!("reference defects: {:?}; impl: {:?}", d, imp)));
            return;
        }
        let mode = ctx.args.extra.get("mode").cloned().unwrap_or("words".into());
        match mode.as_str() {
            "words" => mode_words(&ctx),
            "edits" => mode_edits(&ctx),
            "routing" => mode_routing(&ctx),
            "misuse" => mode_misuse(&ctx),
            m => panic!("unknown mode {}", m),
        }
    });
}

// =================================================================================================
// C16 – routing by name, placement by index  (mode routing)
mod routing {
    use super::*;
    use nalgebra::DVector;
    use varpro::model::builder::SeparableModelBuilder;
    use varpro::model::SeparableModel;
    use varpro::prelude::SeparableNonlinearModel;
    use vpmc::num::Sc;

    pub const N: usize = 12;

    fn encode<T: Sc>(x: &DVector<T>, args: &[T], tag: f64) -> DVector<T> {
        let mut out = x.clone();
        for (t, a) in args.iter().enumerate() {
            out[t] = *a;
        }
        out[args.len()] = T::f(tag);
        out
    }

    macro_rules! tagged {
        ($tag:expr; $($p:ident),+) => {{ let tag = $tag; move |x: &DVector<T>, $($p: T),+| encode::<T>(x, &[$($p),+], tag) }};
    }
    macro_rules! by_arity {
        ($ar:expr, $tag:expr, $apply:expr) => {
            match $ar {
                1 => $apply(tagged!($tag; a)),
                2 => $apply(tagged!($tag; a, b)),
                3 => $apply(tagged!($tag; a, b, c)),
                4 => $apply(tagged!($tag; a, b, c, d)),
                5 => $apply(tagged!($tag; a, b, c, d, e)),
                6 => $apply(tagged!($tag; a, b, c, d, e, f)),
                7 => $apply(tagged!($tag; a, b, c, d, e, f, g)),
                8 => $apply(tagged!($tag; a, b, c, d, e, f, g, h)),
                9 => $apply(tagged!($tag; a, b, c, d, e, f, g, h, i)),
                10 => $apply(tagged!($tag; a, b, c, d, e, f, g, h, i, j)),
                _ => unreachable!(),
            }
        };
    }

    /// a user-defined basis function type (the trait is public): arity beyond what closures can have
    pub struct WideFn<const N: usize> {
        pub tag: f64,
    }
    pub struct WideArgs<const N: usize>;
    impl<T: Sc, const N: usize> varpro::prelude::BasisFunction<T, WideArgs<N>> for WideFn<N> {
        fn eval(&self, x: &DVector<T>, params: &[T]) -> DVector<T> {
            encode::<T>(x, &params[..N], self.tag)
        }
        const ARGUMENT_COUNT: usize = N;
    }

    /// one function of the model under test: None = invariant function
    #[derive(Debug, Clone)]
    pub struct Func {
        /// declared parameter names in the function's own order (indices into the model list)
        pub params: Vec<usize>,
        /// order in which the derivatives are supplied (positions within `params`)
        pub deriv_order: Vec<usize>,
    }
    #[derive(Debug, Clone)]
    pub struct ModelDesc {
        pub names: Vec<String>,
        pub funcs: Vec<Option<Func>>,
    }
    pub fn desc_json(d: &ModelDesc) -> Value {
        json!({"model_parameters": d.names, "functions": d.funcs.iter().map(|f| match f { None => json!("invariant"), Some(f) => json!({"params": f.params.iter().map(|&k| d.names[k].clone()).collect::<Vec<_>>(), "deriv_order": f.deriv_order.iter().map(|&q| d.names[f.params[q]].clone()).collect::<Vec<_>>()}) }).collect::<Vec<_>>() })
    }
    pub fn desc_parse(v: &Value) -> ModelDesc {
        let names: Vec<String> = v["model_parameters"].as_array().unwrap().iter().map(|s| s.as_str().unwrap().to_string()).collect();
        let idx = |s: &str| names.iter().position(|n| n == s).unwrap();
        let funcs = v["functions"]
            .as_array()
            .unwrap()
            .iter()
            .map(|f| {
                if f == "invariant" {
                    None
                } else {
                    let params: Vec<usize> = f["params"].as_array().unwrap().iter().map(|s| idx(s.as_str().unwrap())).collect();
                    let deriv_order = f["deriv_order"].as_array().unwrap().iter().map(|s| params.iter().position(|&k| k == idx(s.as_str().unwrap())).unwrap()).collect();
                    Some(Func { params, deriv_order })
                }
            })
            .collect();
        ModelDesc { names, funcs }
    }

    fn value_of(k: usize) -> f64 {
        3.0 + 2.0 * k as f64
    }
    fn xvec<T: Sc>() -> DVector<T> {
        DVector::from_fn(N, |i, _| T::f(500.0 + i as f64))
    }

    pub fn build<T: Sc>(d: &ModelDesc) -> Result<SeparableModel<T>, String> {
        let mut b = SeparableModelBuilder::<T>::new(&d.names);
        // order of the builder calls varied with the description: sample locations and initial parameters last (0), provisional
        // ones (other values, same lengths) first and the final ones last (1), the final ones before any function (2)
        let order = (d.names.len() + d.funcs.len()) % 3;
        let init: Vec<T> = (0..d.names.len()).map(|k| T::f(1.0 + k as f64)).collect();
        if order == 1 {
            b = b.independent_variable(xvec::<T>().map(|v| v + T::f(100.0))).initial_parameters(init.iter().map(|v| *v + T::f(50.0)).collect());
        } else if order == 2 {
            b = b.independent_variable(xvec::<T>()).initial_parameters(init.clone());
        }
        for (j, f) in d.funcs.iter().enumerate() {
            match f {
                None => {
                    let tag = 1000.0 + j as f64;
                    b = b.invariant_function(move |x: &DVector<T>| encode::<T>(x, &[], tag));
                }
                Some(f) => {
                    let names: Vec<String> = f.params.iter().map(|&k| d.names[k].clone()).collect();
                    let ar = f.params.len();
                    if ar == 11 {
                        b = b.function(&names, WideFn::<11> { tag: 1000.0 + j as f64 });
                        for &q in &f.deriv_order {
                            b = b.partial_deriv(names[q].clone(), WideFn::<11> { tag: 2000.0 + 100.0 * j as f64 + q as f64 });
                        }
                        continue;
                    }
                    b = by_arity!(ar, 1000.0 + j as f64, |c| b.function(&names, c));
                    for &q in &f.deriv_order {
                        let tag = 2000.0 + 100.0 * j as f64 + q as f64;
                        let nm = names[q].clone();
                        b = by_arity!(ar, tag, |c| b.partial_deriv(nm, c));
                    }
                }
            }
        }
        if order != 2 {
            b = b.independent_variable(xvec::<T>()).initial_parameters(init);
        }
        b.build().map_err(|e| format!("{:?}", e))
    }

    /// returns a description of the first discrepancy
    pub fn check<T: Sc>(d: &ModelDesc) -> Result<(), String> {
        let mut m = build::<T>(d).map_err(|e| format!("valid model rejected: {}", e))?;
        let p = d.names.len();
        if m.parameters() != d.names.as_slice() {
            return Err(format!("parameters() = {:?}, model order is {:?}", m.parameters(), d.names));
        }
        // the freshly built model holds the initial parameters
        let init: Vec<T> = (0..p).map(|k| T::f(1.0 + k as f64)).collect();
        verify(&m, d, &init).map_err(|e| format!("freshly built model: {}", e))?;
        // a short history of parameter vectors: distinct, all +0, all -0 (numerically equal, different bits), a revisit, a repeat, one entry changed
        let base: Vec<f64> = (0..p).map(value_of).collect();
        let mut last = base.clone();
        last[p - 1] += 0.5;
        let history: Vec<Vec<f64>> = vec![base.clone(), vec![0.0; p], vec![-0.0; p], base.clone(), base.clone(), last];
        for (h, v) in history.iter().enumerate() {
            let vals: Vec<T> = v.iter().map(|x| T::f(*x)).collect();
            m.set_params(DVector::from_vec(vals.clone())).map_err(|e| format!("set_params #{} failed: {:?}", h, e))?;
            verify(&m, d, &vals).map_err(|e| format!("after set_params #{} of the history {:?}: {}", h, history, e))?;
            // a vector of the wrong length is not "set": whatever the call answers, the parameters in effect and everything
            // computed from them stay those of the last accepted vector
            if h == 0 || h + 1 == history.len() {
                for bad in [p + 1, p - 1, 0, 2 * p] {
                    if bad == p {
                        continue;
                    }
                    if m.set_params(DVector::from_element(bad, T::f(9.5))).is_ok() {
                        return Err(format!("set_params with {} values on a model with {} parameters returned Ok", bad, p));
                    }
                    verify(&m, d, &vals).map_err(|e| format!("after a REJECTED set_params ({} values) following #{} of the history {:?}: {}", bad, h, history, e))?;
                }
            }
        }
        Ok(())
    }

    fn verify<T: Sc>(m: &SeparableModel<T>, d: &ModelDesc, vals: &[T]) -> Result<(), String> {
        let p = d.names.len();
        let got = m.params();
        if got.len() != p || (0..p).any(|k| got[k].bits() != vals[k].bits()) {
            return Err(format!("params() = {:?}, the parameters in effect are {:?}", got.as_slice(), vals));
        }
        let x = xvec::<T>();
        let phi = m.eval().map_err(|e| format!("eval failed: {:?}", e))?;
        if phi.nrows() != N || phi.ncols() != d.funcs.len() {
            return Err(format!("eval() is {}x{}, expected {}x{}", phi.nrows(), phi.ncols(), N, d.funcs.len()));
        }
        for (j, f) in d.funcs.iter().enumerate() {
            let args: Vec<T> = f.as_ref().map(|f| f.params.iter().map(|&k| vals[k]).collect()).unwrap_or_default();
            let want = encode::<T>(&x, &args, 1000.0 + j as f64);
            for i in 0..N {
                if phi[(i, j)].bits() != want[i].bits() {
                    return Err(format!("eval() column {} row {}: got {}, expected {} (function {} must receive {:?} = values of its declared parameters in its own order)", j, i, phi[(i, j)], want[i], j, args));
                }
            }
        }
        for k in 0..p {
            let dm = m.eval_partial_deriv(k).map_err(|e| format!("eval_partial_deriv({}) failed: {:?}", k, e))?;
            if dm.nrows() != N || dm.ncols() != d.funcs.len() {
                return Err(format!("eval_partial_deriv({}) is {}x{}", k, dm.nrows(), dm.ncols()));
            }
            for (j, f) in d.funcs.iter().enumerate() {
                let pos = f.as_ref().and_then(|f| f.params.iter().position(|&kk| kk == k));
                match pos {
                    None => {
                        for i in 0..N {
                            if dm[(i, j)].bits() != T::f(0.0).bits() {
                                return Err(format!("d/d{} column {} row {} = {} but function {} does not depend on {}", d.names[k], j, i, dm[(i, j)], j, d.names[k]));
                            }
                        }
                    }
                    Some(q) => {
                        let f = f.as_ref().unwrap();
                        let args: Vec<T> = f.params.iter().map(|&kk| vals[kk]).collect();
                        let want = encode::<T>(&x, &args, 2000.0 + 100.0 * j as f64 + q as f64);
                        for i in 0..N {
                            if dm[(i, j)].bits() != want[i].bits() {
                                return Err(format!("d/d{} column {} row {}: got {}, expected {} (the derivative registered for '{}' of function {}, called with {:?})", d.names[k], j, i, dm[(i, j)], want[i], d.names[k], j, args));
                            }
                        }
                    }
                }
            }
        }
        Ok(())
    }

    fn permutations(n: usize) -> Vec<Vec<usize>> {
        if n == 0 {
            return vec![vec![]];
        }
        let mut out = vec![];
        for p in permutations(n - 1) {
            for pos in 0..=p.len() {
                let mut q = p.clone();
                q.insert(pos, n - 1);
                out.push(q);
            }
        }
        out
    }
    /// all ordered subsets of size 1..=kmax of 0..n
    fn ordered_subsets(n: usize, kmax: usize) -> Vec<Vec<usize>> {
        let mut out: Vec<Vec<usize>> = vec![];
        let mut frontier: Vec<Vec<usize>> = vec![vec![]];
        for _ in 0..kmax {
            let mut next = vec![];
            for s in &frontier {
                for e in 0..n {
                    if !s.contains(&e) {
                        let mut t = s.clone();
                        t.push(e);
                        next.push(t);
                    }
                }
            }
            out.extend(next.iter().cloned());
            frontier = next;
        }
        out
    }

    /// fill up with single-parameter functions so that every model parameter is used
    fn complete(names: &[String], mut funcs: Vec<Option<Func>>) -> Vec<Option<Func>> {
        for k in 0..names.len() {
            if !funcs.iter().any(|f| f.as_ref().map(|f| f.params.contains(&k)).unwrap_or(false)) {
                funcs.push(Some(Func { params: vec![k], deriv_order: vec![0] }));
            }
        }
        funcs
    }

    pub fn enumerate(thorough: bool, mut visit: impl FnMut(ModelDesc)) {
        // two naming schemes: plain letters, and names that contain one another (in every order within the model's list)
        for letters in [["a", "b", "c", "d"], ["alpha", "a", "al", "alp"]] {
        for np in [3usize, 4] {
            if letters[0] == "alpha" && np == 4 && !thorough {
                continue;
            }
            for perm in permutations(np) {
                let names: Vec<String> = perm.iter().map(|&i| letters[i].to_string()).collect();
                let subsets = ordered_subsets(np, np);
                for s in &subsets {
                    let orders = permutations(s.len());
                    for (oi, ord) in orders.iter().enumerate() {
                        if !thorough && s.len() == 4 && oi % 5 != 0 {
                            continue;
                        }
                        // the tagged function in every position relative to an invariant function
                        for inv_pos in 0..3usize {
                            if inv_pos > 0 && (oi != 0 && !thorough) {
                                continue;
                            }
                            let mut funcs = vec![Some(Func { params: s.clone(), deriv_order: ord.clone() })];
                            funcs = complete(&names, funcs);
                            match inv_pos {
                                1 => funcs.insert(0, None),
                                2 => funcs.push(None),
                                _ => {}
                            }
                            visit(ModelDesc { names: names.clone(), funcs });
                        }
                    }
                }
                // pairs of functions (shared and disjoint parameters), derivative order identity / reversed
                if thorough || np == 3 {
                    for s1 in &subsets {
                        for s2 in &subsets {
                            if !thorough && (s1.len() + s2.len()) % 2 == 0 {
                                continue;
                            }
                            let o1: Vec<usize> = (0..s1.len()).rev().collect();
                            let o2: Vec<usize> = (0..s2.len()).collect();
                            let funcs = complete(&names, vec![Some(Func { params: s1.clone(), deriv_order: o1 }), None, Some(Func { params: s2.clone(), deriv_order: o2 })]);
                            visit(ModelDesc { names: names.clone(), funcs });
                        }
                    }
                }
            }
        }
        }
        // a user-defined basis function type with 11 arguments (closures stop at 10) on a 12-parameter model
        {
            let names: Vec<String> = (0..12).map(|k| format!("w{}", k)).collect();
            for (params, order) in [((0..11).collect::<Vec<usize>>(), (0..11).collect::<Vec<usize>>()), ((1..12).rev().collect(), (0..11).rev().collect()), ((0..11).map(|t| (t * 5 + 3) % 12).collect(), (0..11).map(|t| (t + 4) % 11).collect())] {
                let funcs = complete(&names, vec![Some(Func { params, deriv_order: order }), None]);
                visit(ModelDesc { names: names.clone(), funcs });
            }
        }
        // many parameters (past 64 and 128): one single-parameter function per parameter, plus functions of arity 3 and 10
        // that straddle the boundaries, in declaration orders different from the model order
        for np in [70usize, 130, 300] {
            let names: Vec<String> = (0..np).map(|k| format!("r{}", k)).collect();
            let mut funcs: Vec<Option<Func>> = vec![None];
            funcs.push(Some(Func { params: vec![65, 63, 64], deriv_order: vec![2, 0, 1] }));
            funcs.push(Some(Func { params: (0..10).map(|t| (60 + 7 * t) % np).collect(), deriv_order: (0..10).rev().collect() }));
            if np > 128 {
                funcs.push(Some(Func { params: vec![129, 127, 128, 0], deriv_order: vec![0, 1, 2, 3] }));
            }
            if np > 256 {
                funcs.push(Some(Func { params: vec![257, 255, 256, 1, 299], deriv_order: vec![4, 3, 2, 1, 0] }));
            }
            let funcs = complete(&names, funcs);
            visit(ModelDesc { names, funcs });
        }
        // arity 5..10 on a 10-parameter model: rotations and transpositions of the identity assignment
        let names10: Vec<String> = (0..10).map(|k| format!("q{}", k)).collect();
        for model_rot in [0usize, 3, 7] {
            let names: Vec<String> = (0..10).map(|k| names10[(k + model_rot) % 10].clone()).collect();
            for ar in 5..=10usize {
                let mut assigns: Vec<Vec<usize>> = vec![];
                for r in 0..10 {
                    assigns.push((0..ar).map(|t| (t + r) % 10).collect());
                }
                for i in 0..ar {
                    for j in (i + 1)..ar {
                        let mut a: Vec<usize> = (0..ar).collect();
                        a.swap(i, j);
                        assigns.push(a);
                        let mut b: Vec<usize> = (0..ar).map(|t| (t * 3 + 1) % 10).collect(); // a scattered assignment (3 is coprime to 10)
                        b.swap(i, j);
                        assigns.push(b);
                    }
                }
                assigns.push((0..ar).rev().collect());
                for a in assigns {
                    for ord_kind in 0..3usize {
                        if !thorough && ord_kind == 2 {
                            continue;
                        }
                        let ord: Vec<usize> = match ord_kind {
                            0 => (0..ar).collect(),
                            1 => (0..ar).rev().collect(),
                            _ => (0..ar).map(|t| (t + ar / 2) % ar).collect(),
                        };
                        let funcs = complete(&names, vec![None, Some(Func { params: a.clone(), deriv_order: ord })]);
                        visit(ModelDesc { names: names.clone(), funcs });
                    }
                }
            }
        }
    }
}

pub fn mode_routing(ctx: &Arc<Ctx>) {
    let mut idx = 0u64;
    let mut n = 0u64;
    let mut by_arity: std::collections::BTreeMap<usize, u64> = Default::default();
    routing::enumerate(ctx.args.thorough(), |d| {
        let mine = ctx.args.mine(idx);
        idx += 1;
        if !mine {
            return;
        }
        ctx.begin(idx);
        for f32_ in [false, true] {
            let r = guarded(|| if f32_ { routing::check::<f32>(&d) } else { routing::check::<f64>(&d) });
            n += 1;
            let msg = match r {
                Ok(Ok(())) => None,
                Ok(Err(m)) => Some(("routing".to_string(), m)),
                Err(p) => Some(("panic".to_string(), format!("panicked: {}", p))),
            };
            if let Some((sig, m)) = msg {
                let arity = d.funcs.iter().filter_map(|f| f.as_ref().map(|f| f.params.len())).max().unwrap_or(0);
                ctx.with(|s| s.violate("C16", &format!("{}:max-arity-{}", sig, arity), json!({"mode": "routing", "scalar": if f32_ {"f32"} else {"f64"}, "model": routing::desc_json(&d)}), m));
            }
        }
        for f in d.funcs.iter().flatten() {
            *by_arity.entry(f.params.len()).or_insert(0) += 1;
        }
        if idx % 5000 == 1 {
            ctx.with(|s| s.sample(routing::desc_json(&d)));
        }
    });
    ctx.with(|s| {
        s.add("evaluations", n);
        s.add("distinct_nontrivial", n);
        for (a, c) in by_arity {
            *s.hist.entry("functions_by_arity".into()).or_default().entry(format!("{:02}", a)).or_insert(0) += c;
        }
    });
}

// =================================================================================================
// C17 – misuse of builder-made models is reported as errors and leaves the state intact (mode misuse)
mod misuse {
    use super::*;
    use nalgebra::{DMatrix, DVector};
    use std::sync::atomic::{AtomicUsize, Ordering};
    use varpro::model::builder::SeparableModelBuilder;
    use varpro::model::errors::ModelError;
    use varpro::model::SeparableModel;
    use varpro::prelude::SeparableNonlinearModel;

    /// number of samples of the model under test (4, 1 or 0 - an empty independent variable is accepted by the model builder)
    pub static NS: AtomicUsize = AtomicUsize::new(4);
    pub fn n() -> usize {
        NS.load(Ordering::Relaxed)
    }
    /// a length different from n() standing in for "one less" (n = 0 has none: 3 is used)
    fn less() -> usize {
        if n() > 0 { n() - 1 } else { 3 }
    }
    fn twice() -> usize {
        if n() > 0 { 2 * n() } else { 2 }
    }
    pub const P: usize = 2;
    pub const GOOD: usize = usize::MAX;
    /// 0: three basis functions (f0(a), f1(b, a), invariant);  1: ONE basis function only (f1(b, a)) - a model whose
    /// evaluation is a single column
    pub static KIND: AtomicUsize = AtomicUsize::new(0);
    pub fn single() -> bool {
        KIND.load(Ordering::Relaxed) == 1
    }
    pub fn ncols() -> usize {
        if single() { 1 } else { 3 }
    }
    /// slots: 0 f0, 1 f1, 2 f2(invariant), 3 d f0/da, 4 d f1/db, 5 d f1/da
    pub struct Env {
        pub bad: [AtomicUsize; 6],
    }
    fn out(env: &Env, slot: usize, v: DVector<f64>) -> DVector<f64> {
        let l = env.bad[slot].load(Ordering::Relaxed);
        if l == GOOD {
            v
        } else {
            DVector::from_element(l, 7.0)
        }
    }
    fn xv() -> DVector<f64> {
        DVector::from_vec(vec![1.0, 2.0, 3.0, 4.0][..n()].to_vec())
    }
    pub fn build(env: Arc<Env>) -> SeparableModel<f64> {
        let (e0, e1, e2, e3, e4, e5) = (env.clone(), env.clone(), env.clone(), env.clone(), env.clone(), env.clone());
        if single() {
            return SeparableModelBuilder::<f64>::new(["a", "b"])
                .function(["b", "a"], move |x: &DVector<f64>, b: f64, a: f64| out(&e1, 1, x.map(|v| v * b + a)))
                .partial_deriv("b", move |x: &DVector<f64>, _b: f64, _a: f64| out(&e4, 4, x.clone()))
                .partial_deriv("a", move |x: &DVector<f64>, _b: f64, _a: f64| out(&e5, 5, x.map(|_| 1.0)))
                .independent_variable(xv())
                .initial_parameters(vec![2.0, 5.0])
                .build()
                .expect("misuse model builds");
        }
        SeparableModelBuilder::<f64>::new(["a", "b"])
            .function(["a"], move |x: &DVector<f64>, a: f64| out(&e0, 0, x.map(|v| v * a)))
            .partial_deriv("a", move |x: &DVector<f64>, _a: f64| out(&e3, 3, x.clone()))
            .function(["b", "a"], move |x: &DVector<f64>, b: f64, a: f64| out(&e1, 1, x.map(|v| v * b + a)))
            .partial_deriv("b", move |x: &DVector<f64>, _b: f64, _a: f64| out(&e4, 4, x.clone()))
            .partial_deriv("a", move |x: &DVector<f64>, _b: f64, _a: f64| out(&e5, 5, x.map(|_| 1.0)))
            .invariant_function(move |x: &DVector<f64>| out(&e2, 2, x.map(|_| 1.0)))
            .independent_variable(xv())
            .initial_parameters(vec![2.0, 5.0])
            .build()
            .expect("misuse model builds")
    }
    fn ref_eval(a: &[f64]) -> DMatrix<f64> {
        let x = xv();
        if single() {
            return DMatrix::from_fn(n(), 1, |i, _| x[i] * a[1] + a[0]);
        }
        DMatrix::from_fn(n(), 3, |i, j| match j {
            0 => x[i] * a[0],
            1 => x[i] * a[1] + a[0],
            _ => 1.0,
        })
    }
    fn ref_deriv(k: usize) -> DMatrix<f64> {
        let x = xv();
        if single() {
            return DMatrix::from_fn(n(), 1, |i, _| if k == 0 { 1.0 } else { x[i] });
        }
        DMatrix::from_fn(n(), 3, |i, j| match (k, j) {
            (0, 0) => x[i],
            (0, 1) => 1.0,
            (1, 1) => x[i],
            _ => 0.0,
        })
    }

    #[derive(Debug, Clone, Copy, PartialEq)]
    pub enum Op {
        Set(usize),
        SetBad(usize),
        Eval,
        D(usize),
        /// the environment changes DURING the history: closure `slot` starts returning vectors of length `len`
        Break(usize, usize),
        /// every closure returns correctly sized vectors again
        Heal,
    }
    pub fn ops() -> Vec<Op> {
        vec![
            Op::Eval,
            Op::D(0),
            Op::D(1),
            Op::Set(0),
            Op::Set(1),
            Op::Set(2),
            Op::Set(3),
            Op::SetBad(0),
            Op::SetBad(1),
            Op::SetBad(3),
            Op::SetBad(4),
            Op::D(2),
            Op::D(3),
            Op::D(usize::MAX),
            Op::Break(0, less()),
            Op::Break(1, n() + 1),
            Op::Break(3, if n() == 0 { 1 } else { 0 }),
            Op::Break(5, twice()),
            Op::Heal,
        ]
    }
    pub const ALPHAS: [[f64; 2]; 4] = [[3.0, 7.0], [-1.5, 0.25], [0.0, 7.0], [-0.0, 7.0]];

    pub fn op_json(o: &Op) -> Value {
        match o {
            Op::Set(i) => json!({"set_params": ALPHAS[*i]}),
            Op::SetBad(l) => json!({"set_params_len": l}),
            Op::Eval => json!("eval"),
            Op::D(k) => json!({"eval_partial_deriv": if *k == usize::MAX { json!("usize::MAX") } else { json!(k) }}),
            Op::Break(s, l) => json!({"break": [s, l]}),
            Op::Heal => json!("heal"),
        }
    }
    pub fn op_parse(v: &Value) -> Op {
        if v == "eval" {
            return Op::Eval;
        }
        if v == "heal" {
            return Op::Heal;
        }
        if let Some(b) = v.get("break") {
            return Op::Break(b[0].as_u64().unwrap() as usize, b[1].as_u64().unwrap() as usize);
        }
        if let Some(a) = v.get("set_params") {
            let a0 = a[0].as_f64().unwrap();
            let b0 = a[0].as_f64().unwrap();
            let _ = a0;
            return Op::Set(ALPHAS.iter().position(|x| x[0].to_bits() == b0.to_bits() || (x[0] == b0 && b0 != 0.0)).unwrap_or(0));
        }
        if let Some(l) = v.get("set_params_len") {
            return Op::SetBad(l.as_u64().unwrap() as usize);
        }
        let k = &v["eval_partial_deriv"];
        Op::D(if k == "usize::MAX" { usize::MAX } else { k.as_u64().unwrap() as usize })
    }

    /// runs one op sequence under one environment; returns the first discrepancy
    pub fn run(bad: &[(usize, usize)], seq: &[Op]) -> Result<u64, (String, String)> {
        let env = Arc::new(Env { bad: Default::default() });
        for s in 0..6 {
            env.bad[s].store(GOOD, Ordering::Relaxed);
        }
        let mut m = build(env.clone());
        for (slot, len) in bad {
            env.bad[*slot].store(*len, Ordering::Relaxed);
        }
        let mut bad: Vec<(usize, usize)> = bad.to_vec();
        let mut cur = vec![2.0, 5.0];
        let mut steps = 0u64;
        for (si, op) in seq.iter().enumerate() {
            steps += 1;
            let at = format!("step {} ({:?})", si, op);
            let badnow = bad.clone();
            let badlen = |slot: usize| badnow.iter().find(|(s, _)| *s == slot).map(|(_, l)| *l);
            match op {
                Op::Break(slot, len) => {
                    bad.retain(|(s, _)| s != slot);
                    bad.push((*slot, *len));
                    env.bad[*slot].store(*len, Ordering::Relaxed);
                }
                Op::Heal => {
                    bad.clear();
                    for s in 0..6 {
                        env.bad[s].store(GOOD, Ordering::Relaxed);
                    }
                }
                Op::Set(i) => {
                    if let Err(e) = m.set_params(DVector::from_vec(ALPHAS[*i].to_vec())) {
                        return Err(("valid-set-params-rejected".into(), format!("{}: {:?}", at, e)));
                    }
                    cur = ALPHAS[*i].to_vec();
                }
                Op::SetBad(l) => match m.set_params(DVector::from_element(*l, 9.0)) {
                    Ok(()) => return Err(("wrong-parameter-count-accepted".into(), format!("{}: set_params with {} values on a model with {} parameters returned Ok", at, l, P))),
                    Err(ModelError::IncorrectParameterCount { expected, actual }) if expected == P && actual == *l => {}
                    Err(e) => return Err(("wrong-error-for-parameter-count".into(), format!("{}: {:?}", at, e))),
                },
                Op::Eval => {
                    let bads: Vec<usize> = (if single() { 1..2 } else { 0..3 }).filter_map(|s| badlen(s)).collect();
                    match m.eval() {
                        Ok(mat) => {
                            if !bads.is_empty() {
                                return Err(("mis-shaped-output-accepted".into(), format!("{}: basis functions returned vectors of length {:?} instead of {} but eval() returned Ok({}x{})", at, bads, n(), mat.nrows(), mat.ncols())));
                            }
                            let want = ref_eval(&cur);
                            if mat.nrows() != n() || mat.ncols() != ncols() || mat.iter().zip(want.iter()).any(|(a, b)| a.to_bits() != b.to_bits()) {
                                return Err(("evaluation-changed".into(), format!("{}: eval() = {:?}, expected {:?} for parameters {:?}", at, mat.as_slice(), want.as_slice(), cur)));
                            }
                        }
                        Err(ModelError::UnexpectedFunctionOutput { expected_length, actual_length }) if !bads.is_empty() && expected_length == n() && bads.contains(&actual_length) => {}
                        Err(e) => return Err((if bads.is_empty() { "valid-eval-rejected" } else { "wrong-error-for-output-length" }.into(), format!("{}: {:?} (bad lengths {:?})", at, e, bads))),
                    }
                }
                Op::D(k) => {
                    let slots: Vec<usize> = match k {
                        0 => if single() { vec![5] } else { vec![3, 5] },
                        1 => vec![4],
                        _ => vec![],
                    };
                    let bads: Vec<usize> = slots.iter().filter_map(|s| badlen(*s)).collect();
                    match m.eval_partial_deriv(*k) {
                        Ok(mat) => {
                            if *k >= P {
                                return Err(("derivative-index-out-of-range-accepted".into(), format!("{}: returned Ok", at)));
                            }
                            if !bads.is_empty() {
                                return Err(("mis-shaped-output-accepted".into(), format!("{}: derivatives returned vectors of length {:?} instead of {} but the call returned Ok", at, bads, n())));
                            }
                            let want = ref_deriv(*k);
                            if mat.nrows() != n() || mat.ncols() != ncols() || mat.iter().zip(want.iter()).any(|(a, b)| a.to_bits() != b.to_bits()) {
                                return Err(("evaluation-changed".into(), format!("{}: derivative = {:?}, expected {:?}", at, mat.as_slice(), want.as_slice())));
                            }
                        }
                        Err(ModelError::DerivativeIndexOutOfBounds { index }) if *k >= P && index == *k => {}
                        Err(ModelError::UnexpectedFunctionOutput { expected_length, actual_length }) if *k < P && !bads.is_empty() && expected_length == n() && bads.contains(&actual_length) => {}
                        Err(e) => return Err(("wrong-error-for-derivative".into(), format!("{}: {:?} (index {}, bad lengths {:?})", at, e, k, bads))),
                    }
                }
            }
            // state intact: params() is the last accepted vector
            let p = m.params();
            if p.len() != P || p[0].to_bits() != cur[0].to_bits() || p[1].to_bits() != cur[1].to_bits() {
                return Err(("parameters-changed-by-rejected-call".into(), format!("{}: params() = {:?}, last accepted {:?}", at, p.as_slice(), cur)));
            }
        }
        Ok(steps)
    }

    pub fn environments() -> Vec<Vec<(usize, usize)>> {
        // every absolute small length as well (a one-element output is what a 'constant' shortcut would broadcast; wave w)
        let lens: Vec<usize> = { let mut l = vec![0usize, 1, 2, less(), n() + 1, twice()]; l.retain(|x| *x != n()); l.sort(); l.dedup(); l };
        let mut v: Vec<Vec<(usize, usize)>> = vec![vec![]];
        for s in 0..6 {
            for &l in &lens {
                v.push(vec![(s, l)]);
            }
        }
        // two cooperating wrong lengths (totals that cancel, and arbitrary pairs)
        for s1 in 0..6 {
            for s2 in (s1 + 1)..6 {
                for (l1, l2) in [(less(), n() + 1), (n() + 1, less()), (0, twice()), (twice(), 0)] {
                    if l1 == n() || l2 == n() {
                        continue;
                    }
                    v.push(vec![(s1, l1), (s2, l2)]);
                }
            }
        }
        // three at once: (0,0,3N) and (3N,0,0)
        if n() > 0 {
            v.push(vec![(0, 0), (1, 0), (2, 3 * n())]);
            v.push(vec![(0, 3 * n()), (1, 0), (2, 0)]);
        }
        v
    }
}

/// If the builder accepts a specification it should reject (C15's subject), the resulting object is a builder-made
/// model and C17 applies to it: every operation returns a value or an error, successful evaluations are N x M and
/// params() has one entry per model parameter.
fn accepted_invalid_models(ctx: &Ctx) {
    use nalgebra::DVector as V;
    use varpro::model::builder::SeparableModelBuilder as B;
    use varpro::prelude::SeparableNonlinearModel;
    let x = || V::from_vec(vec![1.0, 2.0, 3.0, 4.0]);
    let f1 = |x: &V<f64>, a: f64| x.map(|v| v * a);
    let f2 = |x: &V<f64>, a: f64, b: f64| x.map(|v| v * a + b);
    let f3 = |x: &V<f64>, a: f64, b: f64, c: f64| x.map(|v| v * a + b * c);
    let specs: Vec<(&str, B<f64>, usize, usize)> = vec![
        ("initial guess too short directly after a derivative", B::new(["a", "b"]).function(["a"], f1).partial_deriv("a", f1).function(["b"], f1).partial_deriv("b", f1).initial_parameters(vec![1.0]).independent_variable(x()), 2, 2),
        ("empty initial guess directly after a derivative", B::new(["a"]).function(["a"], f1).partial_deriv("a", f1).initial_parameters(vec![]).independent_variable(x()), 1, 1),
        ("initial guess too long directly after a function's derivative", B::new(["a"]).function(["a"], f1).partial_deriv("a", f1).initial_parameters(vec![1.0, 2.0, 3.0]).independent_variable(x()), 1, 1),
        ("derivative with fewer arguments than its function", B::new(["a", "b"]).function(["a", "b"], f2).partial_deriv("a", f1).partial_deriv("b", f2).independent_variable(x()).initial_parameters(vec![1.0, 2.0]), 2, 1),
        ("derivative with more arguments than its function", B::new(["a", "b"]).function(["a", "b"], f2).partial_deriv("a", f3).partial_deriv("b", f2).independent_variable(x()).initial_parameters(vec![1.0, 2.0]), 2, 1),
        ("function with more names than arguments", B::new(["a", "b"]).function(["a", "b"], f1).partial_deriv("a", f1).partial_deriv("b", f1).independent_variable(x()).initial_parameters(vec![1.0, 2.0]), 2, 1),
    ];
    for (name, b, p, m) in specs {
        let case = json!({"mode": "misuse", "accepted_invalid_specification": name});
        ctx.with(|s| s.inc("invalid_specifications_tried"));
        let model = match guarded(|| b.build()) {
            Ok(Ok(mo)) => mo,
            _ => continue,
        };
        let r = guarded(|| {
            let mut problems = vec![];
            if model.params().len() != p {
                problems.push(format!("params() has {} entries for a model with {} parameters", model.params().len(), p));
            }
            if let Ok(e) = model.eval() {
                if e.nrows() != 4 || e.ncols() != m {
                    problems.push(format!("eval() returned a {}x{} matrix", e.nrows(), e.ncols()));
                }
                if model.params().len() != p {
                    problems.push("eval() succeeded although the stored parameter vector has the wrong length".into());
                }
            }
            for k in 0..p {
                if let Ok(e) = model.eval_partial_deriv(k) {
                    if e.nrows() != 4 || e.ncols() != m {
                        problems.push(format!("eval_partial_deriv({}) returned a {}x{} matrix", k, e.nrows(), e.ncols()));
                    }
                }
            }
            problems
        });
        match r {
            Err(msg) => ctx.with(|s| s.violate("C17", "panic:accepted-invalid-model", case, format!("the builder accepted this specification and the model panicked: {}", msg))),
            Ok(pr) if !pr.is_empty() => ctx.with(|s| s.violate("C17", "mis-shaped:accepted-invalid-model", case, pr.join("; "))),
            Ok(_) => {}
        }
    }
}

pub fn mode_misuse(ctx: &Arc<Ctx>) {
    if ctx.args.shard == 0 {
        accepted_invalid_models(ctx);
    }
    let depth: usize = ctx.args.extra.get("depth").map(|s| s.parse().unwrap()).unwrap_or(if ctx.args.thorough() { 4 } else { 3 });
    let mut idx = 0u64;
    let (mut seqs, mut steps) = (0u64, 0u64);
    let mut nenvs = 0usize;
    for (kind, nsamples) in [(0usize, 4usize), (0, 1), (0, 0), (1, 4), (1, 0)] {
    misuse::KIND.store(kind, std::sync::atomic::Ordering::Relaxed);
    misuse::NS.store(nsamples, std::sync::atomic::Ordering::Relaxed);
    let ops = misuse::ops();
    let envs = misuse::environments();
    nenvs += envs.len();
    for env in &envs {
        for len in 1..=(if nsamples == 4 && kind == 0 { depth } else { depth.min(3) }) {
            let total = (ops.len() as u64).pow(len as u32);
            let mut start = 0u64;
            while start < total {
                let end = (start + 2048).min(total);
                let mine = ctx.args.mine(idx);
                idx += 1;
                if mine {
                    ctx.begin(idx);
                    for mut k in start..end {
                        let mut seq = vec![misuse::Op::Eval; len];
                        for i in (0..len).rev() {
                            seq[i] = ops[(k % ops.len() as u64) as usize];
                            k /= ops.len() as u64;
                        }
                        seqs += 1;
                        let r = guarded(|| misuse::run(env, &seq));
                        let case = || json!({"mode": "misuse", "samples": nsamples, "basis_functions": if kind == 1 { 1 } else { 3 }, "wrong_lengths": env.iter().map(|(s, l)| json!({"slot": s, "len": l})).collect::<Vec<_>>(), "ops": seq.iter().map(misuse::op_json).collect::<Vec<_>>()});
                        match r {
                            Ok(Ok(n)) => steps += n,
                            Ok(Err((sig, d))) => ctx.with(|s| s.violate("C17", &sig, case(), d)),
                            Err(p) => ctx.with(|s| s.violate("C17", "panic", case(), format!("panicked: {}", p))),
                        }
                        if seqs % 50_000 == 7 {
                            ctx.with(|s| s.sample(case()));
                        }
                    }
                }
                start = end;
            }
        }
    }
    }
    let envs_len = nenvs;
    ctx.with(|s| {
        s.add("transitions", steps);
        s.add("evaluations", seqs);
        s.add("traces_validated", seqs);
        s.add("distinct_nontrivial", seqs);
        if ctx.args.shard == 0 { s.add("states", 5 * envs_len as u64); } // reference states x environments: last accepted parameter vector in {initial, alpha1, alpha2}
        s.maxes.insert("depth_completed".into(), depth as f64);
    });
}
