//! E8 (part 1) – property C15: exhaustive enumeration of `SeparableModelBuilder`
//! call sequences against the reference specification automaton.
//!   mode words : every word of length <= L over the 26-symbol alphabet (x 6 `new` lists)
//!   mode edits : every <= k-edit deviation of valid templates over a larger alphabet
use serde_json::{json, Value};
use std::collections::BTreeSet;
use std::sync::Arc;
use vpmc::mbref::*;
use vpmc::run::*;

fn intern(s: &str) -> &'static str {
    match s {
        "a" => "a",
        "b" => "b",
        "c" => "c",
        "d" => "d",
        "a,b" => "a,b",
        o => Box::leak(o.to_string().into_boxed_str()),
    }
}

fn sym_json(s: &Sym) -> Value {
    match s {
        Sym::Func { names, arity } => json!({"f": names, "arity": arity}),
        Sym::Pd { name, arity } => json!({"pd": name, "arity": arity}),
        Sym::Inv => json!("inv"),
        Sym::X => json!("x"),
        Sym::Init(n) => json!({"init": n}),
    }
}
fn sym_parse(v: &Value) -> Sym {
    if v == "inv" {
        return Sym::Inv;
    }
    if v == "x" {
        return Sym::X;
    }
    if let Some(n) = v.get("init") {
        return Sym::Init(n.as_u64().unwrap() as usize);
    }
    if let Some(n) = v.get("pd") {
        return Sym::Pd { name: intern(n.as_str().unwrap()), arity: v["arity"].as_u64().unwrap() as usize };
    }
    let names = v["f"].as_array().unwrap().iter().map(|s| intern(s.as_str().unwrap())).collect();
    Sym::Func { names, arity: v["arity"].as_u64().unwrap() as usize }
}
fn word_json(w: &Word) -> Value {
    json!({"model": w.0, "syms": w.1.iter().map(sym_json).collect::<Vec<_>>(), "calls": show_word(w)})
}
fn word_parse(v: &Value) -> Word {
    (
        v["model"].as_array().unwrap().iter().map(|s| intern(s.as_str().unwrap())).collect(),
        v["syms"].as_array().unwrap().iter().map(sym_parse).collect(),
    )
}

fn news() -> Vec<Vec<&'static str>> {
    vec![vec!["a"], vec!["a", "b"], vec!["b", "a"], vec!["a", "a"], vec!["a,b"], vec![]]
}

/// the 26-symbol alphabet of DESIGN.md (C15, enumeration A), simplest first
fn alphabet_small() -> Vec<Sym> {
    let mut v = vec![Sym::X, Sym::Inv];
    for n in [1usize, 2, 0, 3] {
        v.push(Sym::Init(n));
    }
    let lists: Vec<Vec<&'static str>> = vec![vec!["a"], vec!["b"], vec!["a", "b"], vec!["b", "a"], vec!["c"], vec!["a", "a"], vec![]];
    for l in &lists {
        for ar in [1usize, 2] {
            v.push(Sym::Func { names: l.clone(), arity: ar });
        }
    }
    for n in ["a", "b", "c"] {
        for ar in [1usize, 2] {
            v.push(Sym::Pd { name: n, arity: ar });
        }
    }
    assert_eq!(v.len(), 26);
    v
}

/// larger pool used for edits (arity up to 3, more name lists)
fn alphabet_large() -> Vec<Sym> {
    let mut v = vec![Sym::X, Sym::Inv];
    for n in 0..5usize {
        v.push(Sym::Init(n));
    }
    let lists: Vec<Vec<&'static str>> = vec![
        vec!["a"],
        vec!["b"],
        vec!["c"],
        vec!["d"],
        vec!["a", "b"],
        vec!["b", "a"],
        vec!["b", "c"],
        vec!["c", "a"],
        vec!["a", "a"],
        vec!["a,b"],
        vec!["a", "b", "c"],
        vec!["c", "a", "b"],
        vec![],
    ];
    for l in &lists {
        for ar in [1usize, 2, 3] {
            v.push(Sym::Func { names: l.clone(), arity: ar });
        }
    }
    for n in ["a", "b", "c", "d"] {
        for ar in [1usize, 2, 3] {
            v.push(Sym::Pd { name: n, arity: ar });
        }
    }
    v
}

fn f(names: &[&'static str]) -> Sym {
    Sym::Func { names: names.to_vec(), arity: names.len() }
}
fn pd(name: &'static str, ar: usize) -> Sym {
    Sym::Pd { name, arity: ar }
}

fn templates() -> Vec<Word> {
    vec![
        (vec!["a"], vec![f(&["a"]), pd("a", 1), Sym::X, Sym::Init(1)]),
        (vec!["a"], vec![Sym::X, Sym::Init(1), Sym::Inv, f(&["a"]), pd("a", 1)]),
        (vec!["a", "b"], vec![f(&["a"]), pd("a", 1), f(&["b"]), pd("b", 1), Sym::Inv, Sym::X, Sym::Init(2)]),
        (vec!["a", "b"], vec![Sym::Init(2), f(&["b", "a"]), pd("a", 2), pd("b", 2), Sym::X]),
        (vec!["b", "a"], vec![Sym::Inv, f(&["a", "b"]), pd("b", 2), pd("a", 2), Sym::X, Sym::Inv, Sym::Init(2)]),
        (vec!["a", "b"], vec![f(&["a", "b"]), pd("a", 2), pd("b", 2), f(&["a"]), pd("a", 1), Sym::X, Sym::Init(2)]),
        (vec!["a", "b", "c"], vec![f(&["c", "a", "b"]), pd("b", 3), pd("c", 3), pd("a", 3), Sym::X, Sym::Init(3)]),
        (vec!["a", "b", "c"], vec![Sym::X, f(&["a"]), pd("a", 1), Sym::Inv, f(&["b", "c"]), pd("c", 2), pd("b", 2), Sym::Init(3)]),
        (vec!["a", "b", "c"], vec![f(&["a", "b"]), pd("a", 2), pd("b", 2), f(&["c", "a"]), pd("a", 2), pd("c", 2), Sym::Init(3), Sym::X, Sym::X]),
        (vec!["c", "b", "a"], vec![Sym::Init(3), Sym::Init(3), f(&["b"]), pd("b", 1), f(&["a", "b", "c"]), pd("a", 3), pd("b", 3), pd("c", 3), Sym::Inv, Sym::X]),
    ]
}

struct Tally {
    words: u64,
    calls: u64,
    accepted: u64,
    valid_ref: u64,
    kinds: std::collections::BTreeMap<String, u64>,
}

fn check_word(ctx: &Ctx, w: &Word, t: &mut Tally, mode: &str) {
    t.words += 1;
    t.calls += w.1.len() as u64 + 2;
    let (valid, err, verdict) = judge(w);
    if valid {
        t.valid_ref += 1;
    }
    match &err {
        None => {
            if verdict.is_none() || verdict.as_ref().map(|v| v.0 == "accepted-invalid").unwrap_or(false) {
                t.accepted += 1
            }
        }
        Some(c) => *t.kinds.entry(kind_of(c).to_string()).or_insert(0) += 1,
    }
    if let Some((sig, detail)) = verdict {
        ctx.with(|s| s.violate("C15", &sig, json!({"mode": mode, "word": word_json(w)}), detail));
    }
}

fn nth_word(model: &[&'static str], alpha: &[Sym], len: usize, mut idx: u64) -> Word {
    let mut syms = vec![Sym::X; len];
    for i in (0..len).rev() {
        syms[i] = alpha[(idx % alpha.len() as u64) as usize].clone();
        idx /= alpha.len() as u64;
    }
    (model.to_vec(), syms)
}

fn mode_words(ctx: &Arc<Ctx>) {
    let alpha = alphabet_small();
    let lmax: usize = ctx.args.extra.get("depth").map(|s| s.parse().unwrap()).unwrap_or(if ctx.args.thorough() { 5 } else { 4 });
    let mut t = Tally { words: 0, calls: 0, accepted: 0, valid_ref: 0, kinds: Default::default() };
    let mut global: u64 = 0;
    for (mi, model) in news().iter().enumerate() {
        for len in 0..=lmax {
            let total = (alpha.len() as u64).pow(len as u32);
            // static partition in blocks of 4096 words
            let mut start = 0u64;
            while start < total {
                let end = (start + 4096).min(total);
                let block = global;
                global += 1;
                if ctx.args.mine(block) {
                    ctx.begin(block);
                    for idx in start..end {
                        let w = nth_word(model, &alpha, len, idx);
                        check_word(ctx, &w, &mut t, "words");
                        if t.words % 200_000 == 1 && mi < 3 {
                            ctx.with(|s| s.sample(json!({"word": show_word(&w), "reference_defects": reference_defects(&w).into_iter().collect::<Vec<_>>()})));
                        }
                    }
                    ctx.tick();
                }
                start = end;
            }
        }
    }
    flush(ctx, &t, lmax as u64, "words");
}

fn flush(ctx: &Ctx, t: &Tally, bound: u64, mode: &str) {
    ctx.with(|s| {
        s.add("states", t.words);
        s.add("transitions", t.calls);
        s.add("traces_validated", t.words);
        s.add("evaluations", t.words);
        s.add("accepted_by_impl", t.accepted);
        s.add("valid_by_reference", t.valid_ref);
        s.add("distinct_nontrivial", t.words);
        for (k, v) in &t.kinds {
            *s.hist.entry("impl_error_kinds".into()).or_default().entry(k.clone()).or_insert(0) += v;
        }
        s.maxes.insert(format!("bound_completed_{}", mode), bound as f64);
    });
}

fn edits_of(w: &Word, pool: &[Sym], out: &mut Vec<Word>) {
    let n = w.1.len();
    // insert
    for pos in 0..=n {
        for s in pool {
            let mut v = w.1.clone();
            v.insert(pos, s.clone());
            out.push((w.0.clone(), v));
        }
    }
    // delete
    for pos in 0..n {
        let mut v = w.1.clone();
        v.remove(pos);
        out.push((w.0.clone(), v));
    }
    // substitute
    for pos in 0..n {
        for s in pool {
            if *s != w.1[pos] {
                let mut v = w.1.clone();
                v[pos] = s.clone();
                out.push((w.0.clone(), v));
            }
        }
    }
    // swap adjacent
    for pos in 0..n.saturating_sub(1) {
        if w.1[pos] != w.1[pos + 1] {
            let mut v = w.1.clone();
            v.swap(pos, pos + 1);
            out.push((w.0.clone(), v));
        }
    }
}

fn mode_edits(ctx: &Arc<Ctx>) {
    let pool = alphabet_large();
    let k: usize = ctx.args.extra.get("edits").map(|s| s.parse().unwrap()).unwrap_or(if ctx.args.thorough() { 2 } else { 1 });
    let mut t = Tally { words: 0, calls: 0, accepted: 0, valid_ref: 0, kinds: Default::default() };
    let mut global = 0u64;
    for tpl in templates() {
        // the template itself must be valid by the reference and accepted by the implementation
        assert!(reference_defects(&tpl).is_empty(), "template not valid by reference: {:?}", show_word(&tpl));
        let mut one = vec![];
        edits_of(&tpl, &pool, &mut one);
        if ctx.args.mine(global) {
            ctx.begin(global);
            check_word(ctx, &tpl, &mut t, "edits");
        }
        global += 1;
        for w1 in &one {
            if ctx.args.mine(global) {
                ctx.begin(global);
                check_word(ctx, w1, &mut t, "edits");
                if k >= 2 {
                    let mut two = vec![];
                    edits_of(w1, &pool, &mut two);
                    for w2 in &two {
                        check_word(ctx, w2, &mut t, "edits");
                    }
                    ctx.tick();
                }
                if t.words % 100_000 < 3 {
                    ctx.with(|s| s.sample(json!({"edited_template": show_word(w1), "reference_defects": reference_defects(w1).into_iter().collect::<Vec<_>>()})));
                }
            }
            global += 1;
        }
    }
    flush(ctx, &t, k as u64, "edits");
}

fn main() {
    engine_main("mbuilder", |ctx| {
        if let Some(r) = &ctx.args.replay {
            let v: Value = serde_json::from_str(r).unwrap();
            let w = word_parse(&v["word"]);
            let mut t = Tally { words: 0, calls: 0, accepted: 0, valid_ref: 0, kinds: Default::default() };
            check_word(&ctx, &w, &mut t, v["mode"].as_str().unwrap_or("words"));
            let d: BTreeSet<String> = reference_defects(&w);
            ctx.with(|s| s.notes.push(format!("reference defects: {:?}; impl: {:?}", d, run_impl(&w).map(|_| "Ok").map_err(|e| canon_err(&e)))));
            return;
        }
        let mode = ctx.args.extra.get("mode").cloned().unwrap_or("words".into());
        match mode.as_str() {
            "words" => mode_words(&ctx),
            "edits" => mode_edits(&ctx),
            m => panic!("unknown mode {}", m),
        }
    });
}
