//! E5 – property C08: enumeration of IEEE special values at every position of
//! x, y, w, the initial alpha and a later set_params, on small problems of every
//! shape; each case runs build -> queries -> set_params -> fit -> fit_with_statistics
//! -> every statistics accessor under catch_unwind and the worker watchdog.
//! Deviation bound k = number of positions replaced (k <= 1 quick, <= 2 thorough).
use levenberg_marquardt::LevenbergMarquardt;
use nalgebra::{DMatrix, DVector};
use serde_json::{json, Value};
use std::sync::Arc;
use vpmc::gen::*;
use vpmc::num::*;
use vpmc::prob::{self, Api};
use vpmc::run::*;
use vpmc::zoo::*;
use varpro::prelude::SeparableNonlinearModel;

fn alphabet(f32_: bool) -> Vec<f64> {
    if f32_ {
        vec![0.0, -0.0, 1.0, -1.0, 1.4e-45, 1.1754944e-38, 1e-30, 1e19, 1e30, 3.4028235e38, -3.4028235e38, f64::INFINITY, f64::NEG_INFINITY, f64::NAN]
    } else {
        vec![0.0, -0.0, 1.0, -1.0, 5e-324, 2.2250738585072014e-308, 1e-200, 1e154, 1e200, f64::MAX, -f64::MAX, f64::INFINITY, f64::NEG_INFINITY, f64::NAN]
    }
}

#[derive(Debug, Clone, Copy, PartialEq, Eq)]
enum Pos {
    X(usize),
    Y(usize, usize),
    W(usize),
    A0(usize),
    /// set_params after a clean build, component k replaced
    Set(usize),
    /// the singular value threshold handed to the problem builder
    Eps,
    /// element (i, j) of the basis matrix itself
    Phi(usize, usize),
    /// element (i, j) of the derivative matrix with respect to parameter k
    Dphi(usize, usize, usize),
    /// every observation multiplied by the value (mode starts)
    YAll,
    /// EVERY weight set to the value (a uniform weight vector of a special magnitude)
    WAll,
    /// starting parameter k MULTIPLIED by the value (mode starts)
    A0Mul(usize),
}

#[derive(Debug, Clone)]
struct Base {
    fam: Family,
    n: usize,
    s: usize,
    prov: Prov,
    par: bool,
    weighted: bool,
    f32_: bool,
    /// all observations zero (the optimizer's ResidualsZero early exit: no Jacobian is ever evaluated)
    yzero: bool,
    /// sample locations shifted away from 0 (so that e.g. exp(-x/0) is 0 everywhere instead of NaN at x = 0)
    xshift: bool,
}

fn fam_id(f: &Family) -> Value {
    f.to_json()
}
fn fam_parse(v: &Value) -> Family {
    Family::from_json(v)
}
fn pos_json(p: &Pos) -> Value {
    match p {
        Pos::X(i) => json!(["x", i]),
        Pos::Y(i, s) => json!(["y", i, s]),
        Pos::W(i) => json!(["w", i]),
        Pos::A0(k) => json!(["a0", k]),
        Pos::Set(k) => json!(["set", k]),
        Pos::Eps => json!(["eps", 0]),
        Pos::YAll => json!(["yall", 0]),
        Pos::WAll => json!(["wall", 0]),
        Pos::A0Mul(k) => json!(["a0mul", k]),
        Pos::Phi(i, j) => json!(["phi", i, j]),
        Pos::Dphi(k, i, j) => json!(["dphi", k, i, j]),
    }
}
fn pos_parse(v: &Value) -> Pos {
    let a = v.as_array().unwrap();
    let i = a[1].as_u64().unwrap() as usize;
    match a[0].as_str().unwrap() {
        "x" => Pos::X(i),
        "y" => Pos::Y(i, a[2].as_u64().unwrap() as usize),
        "w" => Pos::W(i),
        "a0" => Pos::A0(i),
        "set" => Pos::Set(i),
        "eps" => Pos::Eps,
        "yall" => Pos::YAll,
        "wall" => Pos::WAll,
        "a0mul" => Pos::A0Mul(i),
        "phi" => Pos::Phi(i, a[2].as_u64().unwrap() as usize),
        "dphi" => Pos::Dphi(i, a[2].as_u64().unwrap() as usize, a[3].as_u64().unwrap() as usize),
        o => panic!("pos {}", o),
    }
}
fn fbits(v: f64) -> String {
    format!("{:016x}", v.to_bits())
}
fn case_json(b: &Base, subs: &[(Pos, f64)]) -> Value {
    json!({"fam": fam_id(&b.fam), "n": b.n, "s": b.s, "prov": b.prov.name(), "par": b.par, "weighted": b.weighted, "scalar": if b.f32_ {"f32"} else {"f64"}, "yzero": b.yzero, "xshift": b.xshift,
           "subs": subs.iter().map(|(p, v)| json!({"pos": pos_json(p), "value": format!("{:e}", v), "bits": fbits(*v)})).collect::<Vec<_>>()})
}
fn case_parse(v: &Value) -> (Base, Vec<(Pos, f64)>) {
    let b = Base {
        fam: fam_parse(&v["fam"]),
        n: v["n"].as_u64().unwrap() as usize,
        s: v["s"].as_u64().unwrap() as usize,
        prov: if v["prov"] == "hand" { Prov::Hand } else { Prov::Built },
        par: v["par"].as_bool().unwrap(),
        weighted: v["weighted"].as_bool().unwrap(),
        f32_: v["scalar"] == "f32",
        yzero: v["yzero"].as_bool().unwrap_or(false),
        xshift: v["xshift"].as_bool().unwrap_or(false),
    };
    let subs = v["subs"].as_array().unwrap().iter().map(|s| (pos_parse(&s["pos"]), f64::from_bits(u64::from_str_radix(s["bits"].as_str().unwrap(), 16).unwrap()))).collect();
    (b, subs)
}

fn positions(b: &Base) -> Vec<Pos> {
    let mut v = vec![];
    v.push(Pos::Eps);
    for k in 0..b.fam.p() {
        v.push(Pos::A0(k));
        v.push(Pos::Set(k));
    }
    for i in 0..b.n {
        v.push(Pos::X(i));
    }
    for s in 0..b.s {
        for i in 0..b.n {
            v.push(Pos::Y(i, s));
        }
    }
    if b.weighted {
        for i in 0..b.n {
            v.push(Pos::W(i));
        }
        v.push(Pos::WAll);
    }
    for i in 0..b.n.min(3) {
        for j in 0..b.fam.m() {
            v.push(Pos::Phi(i, j));
            for k in 0..b.fam.p() {
                v.push(Pos::Dphi(k, i, j));
            }
        }
    }
    v
}

fn run_case<T: Sc>(ctx: &Ctx, b: &Base, subs: &[(Pos, f64)]) {
    let cj = || case_json(b, subs);
    let (a_true, _c) = truth(&b.fam);
    let mut x = xgrid(&b.fam, b.n);
    if b.xshift {
        for v in x.iter_mut() {
            *v += 0.5;
        }
    }
    let clean_spec = ModelSpec::new(b.fam.clone(), x.clone());
    // start a few percent off the truth so that the optimizer really iterates
    let mut a0: Vec<f64> = a_true.iter().enumerate().map(|(k, v)| v * (1.0 + 0.04 * (k as f64 + 1.0))).collect();
    let mut y = DMatrix::<f64>::zeros(b.n, b.s);
    for s in 0..b.s {
        let d = data(&clean_spec, 1.0 + s as f64, 1e-3, 1 + s as u64, 7);
        if !b.yzero {
            y.set_column(s, &d);
        }
    }
    let mut w: Option<Vec<f64>> = if b.weighted { WKind::Ramp.make(b.n) } else { None };
    let mut set_alpha: Option<Vec<f64>> = None;
    let mut tamper: Vec<(Option<usize>, usize, usize, f64)> = vec![];
    let mut eps: Option<f64> = None;
    for (p, v) in subs {
        match *p {
            Pos::X(i) => x[i] = *v,
            Pos::Y(i, s) => y[(i, s)] = *v,
            Pos::W(i) => w.as_mut().unwrap()[i] = *v,
            Pos::A0(k) => a0[k] = *v,
            Pos::Set(k) => {
                let mut a = set_alpha.take().unwrap_or_else(|| a0.clone());
                a[k] = *v;
                set_alpha = Some(a);
            }
            Pos::Eps => eps = Some(*v),
            Pos::YAll => y *= *v,
            Pos::WAll => {
                if let Some(w) = w.as_mut() {
                    for x in w.iter_mut() {
                        *x = *v;
                    }
                }
            }
            Pos::A0Mul(k) => a0[k] = a_true[k] * *v,
            Pos::Phi(i, j) => tamper.push((None, i, j, *v)),
            Pos::Dphi(k, i, j) => tamper.push((Some(k), i, j, *v)),
        }
    }
    let spec = ModelSpec::new(b.fam.clone(), x);
    let yt: DMatrix<T> = mat_t(&y);
    let wt: Option<DVector<T>> = w.as_ref().map(|w| vec_t::<T>(w));
    let api = if b.s == 1 { Api::Single } else { Api::Mrhs };
    let stage = std::cell::Cell::new("build");
    let r = guarded(|| {
        let mut model = make::<T>(&spec, b.prov, &a0);
        for (d, i, j, v) in &tamper {
            model = vpmc::wrap::Tamper::wrap(model, *d, *i, *j, T::f(*v));
        }
        let phi0_nonfinite = model.eval().map(|m| m.iter().any(|v| !v.d().is_finite())).unwrap_or(false);
        let built = prob::build(model, &yt, wt.as_ref(), eps.map(|e| T::f(e)), api, b.par);
        let mut problem = match built {
            Ok(p) => p,
            Err(_) => return ("build-rejected", false, false),
        };
        stage.set("queries");
        let _ = (problem.params(), problem.residuals(), problem.jacobian(), problem.coefs(), problem.wdata());
        if let Some(a) = &set_alpha {
            stage.set("set_params");
            problem.set(&vec_t::<T>(a));
            let _ = (problem.params(), problem.residuals(), problem.jacobian(), problem.coefs());
        }
        let phi_nonfinite = if set_alpha.is_some() { problem.model().eval().map(|m| m.iter().any(|v| !v.d().is_finite())).unwrap_or(false) } else { phi0_nonfinite };
        stage.set("fit");
        let fit = problem.clone_box().fit(LevenbergMarquardt::new());
        let fit_ok = fit.ok;
        let _ = (fit.alpha(), fit.coef(), fit.best_fit());
        if b.s == 1 {
            stage.set("fit_with_statistics");
            let (_f, st) = problem.fit_stats(LevenbergMarquardt::new());
            if let Some(st) = st {
                stage.set("statistics accessors");
                let _ = st.covariance_matrix().clone();
                let _ = st.calculate_correlation_matrix();
                let _ = st.weighted_residuals();
                let _ = st.regression_standard_error();
                let _ = st.reduced_chi2();
                let _ = st.nonlinear_parameters_variance();
                let _ = st.linear_coefficients_variance();
                let _ = st.confidence_band_radius(T::f(0.9));
            }
        }
        ("ran", phi_nonfinite, fit_ok)
    });
    ctx.with(|s| {
        s.inc("evaluations");
        match &r {
            Ok((what, nonfinite, fit_ok)) => {
                s.bucket("outcome", &format!("{}{}{}", what, if *nonfinite { "+nonfinite-basis" } else { "" }, if *fit_ok { "+fit-ok" } else { "" }));
                if *nonfinite {
                    s.inc("distinct_nontrivial");
                }
                if *nonfinite && *fit_ok {
                    s.violate("C08", "nonfinite-basis-but-fit-ok", cj(), "the basis matrix at the starting parameters is non-finite but fit returned Ok".into());
                }
            }
            Err(msg) => {
                let sig = if msg.contains("Singular value") { "panic:svd-nonfinite".to_string() } else { format!("panic:{}", stage.get()) };
                s.violate("C08", &sig, cj(), format!("panicked during {}: {}", stage.get(), msg));
            }
        }
        if subs.len() == 1 {
            s.sample(json!({"case": cj(), "outcome": format!("{:?}", r.as_ref().map(|x| x.0))}));
        }
    });
}

/// Builder-made models from specifications that are NOT valid (wrong derivative arity, missing derivative, ...).
/// A correct builder rejects them (that is C15's subject); if a builder accepts one, it is a builder-made model
/// and the whole pipeline must still not panic (C08).
fn odd_builder_models(ctx: &Ctx) {
    use nalgebra::DVector as V;
    use varpro::prelude::*;
    type B = SeparableModelBuilder<f64>;
    let x = || V::from_vec(vec![0.5, 1.0, 1.5, 2.0, 2.5, 3.0]);
    let f1 = |x: &V<f64>, a: f64| x.map(|v| (-v / a).exp());
    let d1 = |x: &V<f64>, a: f64| x.map(|v| v / (a * a) * (-v / a).exp());
    let f2 = |x: &V<f64>, a: f64, b: f64| x.map(|v| (-v / a).exp() * (b * v).cos());
    let d2 = |x: &V<f64>, a: f64, b: f64| x.map(|v| v / (a * a) * (-v / a).exp() * (b * v).cos());
    let d3 = |x: &V<f64>, a: f64, b: f64, _c: f64| x.map(|v| -v * (-v / a).exp() * (b * v).sin());
    let specs: Vec<(&str, B)> = vec![
        ("derivative with fewer arguments than its function", B::new(["a", "b"]).function(["a", "b"], f2).partial_deriv("a", d1).partial_deriv("b", d2).invariant_function(|x| x.map(|_| 1.0)).independent_variable(x()).initial_parameters(vec![1.0, 2.0])),
        ("derivative with more arguments than its function", B::new(["a", "b"]).function(["a", "b"], f2).partial_deriv("a", d2).partial_deriv("b", d3).independent_variable(x()).initial_parameters(vec![1.0, 2.0])),
        ("function with more names than arguments", B::new(["a", "b"]).function(["a", "b"], f1).partial_deriv("a", d1).partial_deriv("b", d1).independent_variable(x()).initial_parameters(vec![1.0, 2.0])),
        ("missing derivative", B::new(["a", "b"]).function(["a", "b"], f2).partial_deriv("a", d2).independent_variable(x()).initial_parameters(vec![1.0, 2.0])),
        ("initial guess too short", B::new(["a", "b"]).function(["a"], f1).partial_deriv("a", d1).function(["b"], f1).partial_deriv("b", d1).independent_variable(x()).initial_parameters(vec![1.0])),
        ("initial guess too long directly after a derivative", B::new(["a"]).function(["a"], f1).partial_deriv("a", d1).initial_parameters(vec![1.0, 2.0, 3.0]).independent_variable(x())),
        ("derivative after an intervening call", B::new(["a"]).function(["a"], f1).independent_variable(x()).partial_deriv("a", d1).initial_parameters(vec![1.0])),
        ("parameter used by no function", B::new(["a", "b"]).function(["a"], f1).partial_deriv("a", d1).independent_variable(x()).initial_parameters(vec![1.0, 2.0])),
    ];
    for (name, b) in specs {
        let case = json!({"odd_builder_model": name});
        ctx.with(|s| s.inc("evaluations"));
        let model = match guarded(|| b.build()) {
            Err(m) => {
                ctx.with(|s| s.violate("C08", "panic:model-builder", case, format!("the model builder panicked: {}", m)));
                continue;
            }
            Ok(Err(_)) => {
                ctx.with(|s| s.inc("invalid_specifications_rejected_by_builder"));
                continue;
            }
            Ok(Ok(m)) => m,
        };
        // accepted: it is a builder-made model now
        let y = V::from_vec(vec![1.0, 0.8, 0.5, 0.45, 0.3, 0.28]);
        let r = guarded(move || {
            let p = varpro::solvers::levmar::LevMarProblemBuilder::new(model).observations(y).build();
            if let Ok(p) = p {
                let _ = varpro::solvers::levmar::LevMarSolver::default().fit_with_statistics(p);
            }
        });
        if let Err(m) = r {
            ctx.with(|s| s.violate("C08", "panic:accepted-invalid-model", case, format!("the builder accepted this specification and fitting the resulting model panicked: {}", m)));
        }
    }
}

/// A VALID builder-made model whose basis function is a user-defined type with 11 arguments (the `BasisFunction` trait
/// is public; closures stop at 10 arguments): build, queries, fit and statistics must return.
struct Wide11 {
    deriv: Option<usize>,
}
struct Wide11Args;
impl varpro::prelude::BasisFunction<f64, Wide11Args> for Wide11 {
    fn eval(&self, x: &DVector<f64>, a: &[f64]) -> DVector<f64> {
        x.map(|v| {
            let base = (-a[0] * v).exp();
            let poly = 1.0 + (1..11).map(|k| a[k] * v.powi(k as i32) * 1e-3).sum::<f64>();
            match self.deriv {
                None => base * poly,
                Some(0) => -v * base * poly,
                Some(k) => base * v.powi(k as i32) * 1e-3,
            }
        })
    }
    const ARGUMENT_COUNT: usize = 11;
}
fn wide_basis_function_model(ctx: &Ctx) {
    use varpro::prelude::*;
    let case = json!({"odd_builder_model": "valid model with a user-defined 11-argument basis function"});
    ctx.with(|s| s.inc("evaluations"));
    let r = guarded(|| {
        let names: Vec<String> = (0..11).map(|k| format!("w{}", k)).collect();
        let mut b = SeparableModelBuilder::<f64>::new(&names).function(&names, Wide11 { deriv: None });
        for k in 0..11 {
            b = b.partial_deriv(names[k].clone(), Wide11 { deriv: Some(k) });
        }
        let x = DVector::from_fn(40, |i, _| 0.05 * i as f64);
        let truth: Vec<f64> = (0..11).map(|k| if k == 0 { 0.8 } else { 0.5 / k as f64 }).collect();
        let y = Wide11 { deriv: None }.eval(&x, &truth) * 2.5;
        let start: Vec<f64> = truth.iter().map(|v| v * 1.05).collect();
        let model = b.invariant_function(|x: &DVector<f64>| x.map(|_| 1.0)).independent_variable(x).initial_parameters(start).build();
        let model = match model {
            Ok(m) => m,
            Err(e) => return format!("rejected: {:?}", e),
        };
        let p = varpro::solvers::levmar::LevMarProblemBuilder::new(model).observations(y).build();
        match p {
            Ok(p) => {
                use levenberg_marquardt::LeastSquaresProblem;
                let _ = (p.residuals(), p.jacobian());
                let _ = varpro::solvers::levmar::LevMarSolver::default().fit_with_statistics(p);
                "ran".to_string()
            }
            Err(e) => format!("problem rejected: {:?}", e),
        }
    });
    match r {
        Err(m) => ctx.with(|s| s.violate("C08", "panic:wide-basis-function", case, format!("panicked: {}", m))),
        Ok(o) => ctx.with(|s| s.bucket("wide_basis_function_model", &o)),
    }
}

fn bases(thorough: bool) -> Vec<Base> {
    let mut v = vec![];
    let fams = vec![Family::GenProd { m: 1, p: 1, inc: default_inc(1, 1) }, Family::Exp1Off, Family::Exp2Off, Family::OLeary, Family::ExpN(4)];
    for (fi, fam) in fams.iter().enumerate() {
        // the four-exponential family is always run with 8 samples as well: its fits wander to negative decay
        // constants, i.e. finite basis matrices with an extreme dynamic range
        let ns: Vec<usize> = if thorough || fi == 4 { vec![1, 2, 3, 4, 8] } else { vec![1, 2, 3, 4] };
        for &n in &ns {
            for s in [1usize, 2] {
                for f32_ in [false, true] {
                    for (prov, par, weighted) in [(Prov::Hand, false, true), (Prov::Built, false, false), (Prov::Hand, true, false), (Prov::Built, true, true)] {
                        if !fam.can_build() && prov == Prov::Built {
                            continue;
                        }
                        if fi == 4 && (n < 4 || s == 2 || prov == Prov::Built) {
                            continue;
                        }
                        if !thorough && (fi == 3 || (s == 2 && f32_) || (par && n != 3 && fi != 4)) {
                            continue;
                        }
                        v.push(Base { fam: fam.clone(), n, s, prov, par, weighted, f32_, yzero: false, xshift: false });
                        if s == 1 && !par {
                            v.push(Base { fam: fam.clone(), n, s, prov, par, weighted, f32_, yzero: true, xshift: true });
                            if thorough {
                                v.push(Base { fam: fam.clone(), n, s, prov, par, weighted, f32_, yzero: true, xshift: false });
                                v.push(Base { fam: fam.clone(), n, s, prov, par, weighted, f32_, yzero: false, xshift: true });
                            }
                        }
                    }
                }
            }
        }
    }
    v
}

fn dispatch(ctx: &Ctx, b: &Base, subs: &[(Pos, f64)]) {
    if b.f32_ {
        run_case::<f32>(ctx, b, subs)
    } else {
        run_case::<f64>(ctx, b, subs)
    }
}

/// "every trial step the optimizer may take from any start": finite inputs only - every combination of
/// multipliers of the generating parameters as the start (wrong sign, wrong order of magnitude), observations
/// of ordinary, tiny and huge scale, few samples; build, fit and fit_with_statistics must return.
fn mode_starts(ctx: &Arc<Ctx>, thorough: bool) {
    let fams = vec![Family::Exp1Off, Family::Exp2Off, Family::GaussDecayOff, Family::OLeary, Family::Exp3, Family::ExpN(4)];
    let mults: Vec<f64> = if thorough { vec![-10.0, -1.0, -0.1, 0.01, 0.1, 0.5, 1.0, 2.0, 10.0, 100.0] } else { vec![-1.0, 0.1, 1.0, 10.0] };
    let mut idx = 0u64;
    for fam in &fams {
        let p = fam.p();
        let mp = fam.m() + p;
        let mut ns = vec![mp, 8.max(mp + 1), 16];
        if thorough {
            ns.push(33);
            ns.push(fam.m());
        }
        ns.sort();
        ns.dedup();
        for &n in &ns {
            for f32_ in [false, true] {
                for (prov, par, weighted) in [(Prov::Hand, false, false), (Prov::Hand, true, true), (Prov::Built, false, true), (Prov::Built, true, false)] {
                    if !fam.can_build() && prov == Prov::Built {
                        continue;
                    }
                    if !thorough && (prov == Prov::Built) != (n == 16) {
                        continue;
                    }
                    let yscales: Vec<f64> = if f32_ { vec![1.0, 1e-25, 1e25, 1e36] } else { vec![1.0, 1e-200, 1e150, 1e300] };
                    for (yi, ys) in yscales.iter().enumerate() {
                        if !thorough && yi == 1 {
                            continue;
                        }
                        let b = Base { fam: fam.clone(), n, s: 1, prov, par, weighted, f32_, yzero: false, xshift: false };
                        let total = (mults.len() as u64).pow(p as u32);
                        for mut k in 0..total {
                            let mine = ctx.args.mine(idx);
                            idx += 1;
                            if !mine {
                                continue;
                            }
                            let mut subs: Vec<(Pos, f64)> = vec![];
                            for q in 0..p {
                                subs.push((Pos::A0Mul(q), mults[(k % mults.len() as u64) as usize]));
                                k /= mults.len() as u64;
                            }
                            if *ys != 1.0 {
                                subs.push((Pos::YAll, *ys));
                            }
                            ctx.begin_desc(idx, case_json(&b, &subs));
                            dispatch(ctx, &b, &subs);
                            ctx.with(|s| s.inc("wild_start_fits"));
                        }
                    }
                }
            }
        }
    }
    ctx.with(|s| {
        let n = s.counters.get("wild_start_fits").copied().unwrap_or(0);
        s.add("distinct_nontrivial", n);
    });
}

fn main() {
    engine_main("nonfinite", |ctx: Arc<Ctx>| {
        if let Some(r) = &ctx.args.replay {
            let v: Value = serde_json::from_str(r).unwrap();
            if v.get("odd_builder_model").is_some() {
                odd_builder_models(&ctx);
                wide_basis_function_model(&ctx);
                return;
            }
            let (b, subs) = case_parse(&v);
            ctx.begin_desc(0, case_json(&b, &subs));
            dispatch(&ctx, &b, &subs);
            return;
        }
        let thorough = ctx.args.thorough();
        if ctx.args.extra.get("mode").map(|m| m == "starts").unwrap_or(false) {
            mode_starts(&ctx, thorough);
            return;
        }
        if ctx.args.shard == 0 {
            odd_builder_models(&ctx);
            wide_basis_function_model(&ctx);
        }
        let kmax: usize = ctx.args.extra.get("k").map(|s| s.parse().unwrap()).unwrap_or(if thorough { 2 } else { 1 });
        let mut idx: u64 = 0;
        for b in bases(thorough) {
            let alpha = alphabet(b.f32_);
            let pos = positions(&b);
            // k = 0
            if ctx.args.mine(idx) {
                ctx.begin_desc(idx, case_json(&b, &[]));
                dispatch(&ctx, &b, &[]);
            }
            idx += 1;
            // k = 1
            for p in &pos {
                for v in &alpha {
                    if ctx.args.mine(idx) {
                        let subs = [(*p, *v)];
                        ctx.begin_desc(idx, case_json(&b, &subs));
                        dispatch(&ctx, &b, &subs);
                    }
                    idx += 1;
                }
            }
            // k = 2 (small shapes only)
            if kmax >= 2 && b.n <= 3 && b.s == 1 {
                for (i, p1) in pos.iter().enumerate() {
                    for p2 in pos.iter().skip(i + 1) {
                        for v1 in &alpha {
                            for v2 in &alpha {
                                if ctx.args.mine(idx) {
                                    let subs = [(*p1, *v1), (*p2, *v2)];
                                    ctx.begin_desc(idx, case_json(&b, &subs));
                                    dispatch(&ctx, &b, &subs);
                                }
                                idx += 1;
                            }
                        }
                    }
                }
            }
        }
        ctx.with(|s| s.maxes.insert("deviation_bound_completed".into(), kmax as f64));
    });
}
