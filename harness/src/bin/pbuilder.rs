//! E9 – property C18: every call sequence (length <= L) of the fitting-problem
//! builder over {observations, weights, epsilon} x shapes, for the four
//! constructors and model output lengths {0, 1, 3}, against a reference
//! validation function; successful builds are compared with the canonical-order
//! build, with an explicit set_params(initial), and the threshold semantics are
//! observed behaviourally on a crafted diagonal basis matrix.
use nalgebra::{DMatrix, DVector};
use serde_json::{json, Value};
use std::collections::BTreeSet;
use std::sync::Arc;
use varpro::solvers::levmar::LevMarProblemBuilder;
use vpmc::num::*;
use vpmc::prob::{observe, Obs, Prob};
use vpmc::run::*;
use vpmc::zoo::*;

#[derive(Debug, Clone, Copy, PartialEq)]
enum Call {
    Obs { rows: usize, cols: usize },
    /// len, kind 0 = all ones, 1 = ramp, 2 = ramp times 2^66 (about 7e19: finite in f32, its square is not)
    W { len: usize, kind: u8 },
    Eps(f64),
}

fn call_json(c: &Call) -> Value {
    match c {
        Call::Obs { rows, cols } => json!({"observations": [rows, cols]}),
        Call::W { len, kind } => json!({"weights": {"len": len, "kind": match *kind { 0 => "ones", 1 => "ramp", _ => "ramp*2^66" }}}),
        Call::Eps(e) => json!({"epsilon": format!("{:e}", e), "bits": format!("{:016x}", e.to_bits())}),
    }
}
fn call_parse(v: &Value) -> Call {
    if let Some(o) = v.get("observations") {
        return Call::Obs { rows: o[0].as_u64().unwrap() as usize, cols: o[1].as_u64().unwrap() as usize };
    }
    if let Some(w) = v.get("weights") {
        return Call::W { len: w["len"].as_u64().unwrap() as usize, kind: if w["kind"] == "ones" { 0 } else if w["kind"] == "ramp" { 1 } else { 2 } };
    }
    Call::Eps(f64::from_bits(u64::from_str_radix(v["bits"].as_str().unwrap(), 16).unwrap()))
}

#[derive(Debug, Clone, Copy, PartialEq)]
struct Cfg {
    mrhs: bool,
    par: bool,
    out_len: usize,
    /// second diagonal entry of the 3x2 crafted basis: 1e-5, or 0.4375*eps (tiny)
    tiny_d2: bool,
    f32_: bool,
}

fn d2_of<T: Sc>(cfg: &Cfg) -> f64 {
    if cfg.tiny_d2 {
        0.4375 * T::EPS
    } else {
        1e-5
    }
}

/// row-major 5 x 3
const DENSE: [f64; 15] = [1.0, 0.5, 0.25, 1.0, -0.5, 0.25, 1.0, 1.0, 1.0, 1.0, -1.0, 1.0, 1.0, 0.0, 0.0];

fn model<T: Sc>(cfg: &Cfg) -> BM<T> {
    let n = cfg.out_len;
    let spec = match n {
        3 => {
            let d2 = d2_of::<T>(cfg);
            PolySpec { n: 3, m: 2, p: 1, a0: vec![0.0; 6], a: vec![vec![1.0, 0.0, 0.0, d2, 0.0, 0.0]], b: vec![vec![0.0; 6]] }
        }
        // 4 x 2 basis with entries of order 1e20 (f32) / 1e155 (f64): every entry finite, sums of squares overflow
        4 => {
            let big = if cfg.f32_ { 1e20 } else { 1e155 };
            PolySpec { n: 4, m: 2, p: 1, a0: vec![0.0; 8], a: vec![vec![big, 0.5 * big, big, -0.25 * big, 0.5 * big, big, -big, 0.75 * big]], b: vec![vec![0.0; 8]] }
        }
        // square AND rank deficient at every parameter (2 x 2, all entries alpha): as many samples as basis functions, yet the
        // observations are not reproduced - the residuals of the initial state are far from zero (wave w)
        2 => PolySpec { n: 2, m: 2, p: 1, a0: vec![0.0; 4], a: vec![vec![1.0; 4]], b: vec![vec![0.0; 4]] },
        // dense, well conditioned 5 x 3 basis (three columns: the decomposition really iterates)
        5 => PolySpec { n: 5, m: 3, p: 1, a0: vec![0.0; 15], a: vec![DENSE.to_vec()], b: vec![vec![0.0; 15]] },
        _ => PolySpec { n, m: 1, p: 1, a0: vec![0.0; n], a: vec![vec![1.0; n]], b: vec![vec![0.0; n]] },
    };
    let fam = Family::PolyMat(Arc::new(spec));
    let ms = ModelSpec::new(fam, (0..n).map(|i| i as f64).collect());
    make::<T>(&ms, Prov::Hand, &[1.0])
}

fn ymat<T: Sc>(cfg: &Cfg, rows: usize, cols: usize) -> DMatrix<T> {
    let d2 = d2_of::<T>(cfg);
    DMatrix::from_fn(rows, cols, |i, s| {
        let base = match i {
            0 => 2.0,
            1 => 3.0 * d2,
            2 => 0.5,
            _ => 1.25,
        };
        T::f(base * (s as f64 + 1.0))
    })
}
fn wvec<T: Sc>(len: usize, kind: u8) -> DVector<T> {
    // powers of two keep the weighted diagonal matrix exact
    let big = 2.0f64.powi(66);
    DVector::from_fn(len, |i, _| match kind {
        0 => T::f(1.0),
        1 => T::f([1.0, 0.5, 2.0, 4.0][i % 4]),
        _ => T::f(big * [1.0, 0.5, 2.0, 4.0][i % 4]),
    })
}

fn run_sequence<T: Sc>(cfg: &Cfg, seq: &[Call]) -> Result<Box<dyn Prob<T>>, String> {
    macro_rules! drive {
        ($b:expr, $single:tt) => {{
            let mut b = $b;
            for c in seq {
                b = match c {
                    Call::Obs { rows, cols } => {
                        let y = ymat::<T>(cfg, *rows, *cols);
                        drive!(@obs b, y, $single)
                    }
                    Call::W { len, kind } => b.weights(wvec::<T>(*len, *kind)),
                    Call::Eps(e) => b.epsilon(T::f(*e)),
                };
            }
            b.build().map(|p| Box::new(p) as Box<dyn Prob<T>>).map_err(|e| format!("{:?}", e))
        }};
        (@obs $b:ident, $y:ident, true) => {
            $b.observations($y.column(0).clone_owned())
        };
        (@obs $b:ident, $y:ident, false) => {
            $b.observations($y)
        };
    }
    let m = model::<T>(cfg);
    match (cfg.mrhs, cfg.par) {
        (false, false) => drive!(LevMarProblemBuilder::new(m), true),
        (false, true) => drive!(LevMarProblemBuilder::new_parallel(m), true),
        (true, false) => drive!(LevMarProblemBuilder::mrhs(m), false),
        (true, true) => drive!(LevMarProblemBuilder::mrhs_parallel(m), false),
    }
}

fn err_kind(e: &str) -> &str {
    e.split([' ', '{', '(']).next().unwrap_or(e)
}

/// the set of violated requirements (reference validation)
fn violated(cfg: &Cfg, last_obs: Option<(usize, usize)>, last_w: Option<usize>) -> BTreeSet<&'static str> {
    let mut v = BTreeSet::new();
    match last_obs {
        None => {
            v.insert("YDataMissing");
        }
        Some((r, c)) => {
            if cfg.out_len == 0 || r * c == 0 {
                v.insert("ZeroLengthVector");
            }
            if r != cfg.out_len {
                v.insert("InvalidLengthOfData");
            }
            if let Some(wl) = last_w {
                if wl != r {
                    v.insert("InvalidLengthOfWeights");
                }
            }
        }
    }
    v
}

fn check_sequence<T: Sc>(ctx: &Ctx, cfg: &Cfg, seq: &[Call], tally: &mut (u64, u64, u64)) {
    let case = || json!({"constructor": format!("{}{}", if cfg.mrhs {"mrhs"} else {"new"}, if cfg.par {"_parallel"} else {""}), "mrhs": cfg.mrhs, "par": cfg.par, "model_output_len": cfg.out_len, "tiny_d2": cfg.tiny_d2,
                         "scalar": if cfg.f32_ {"f32"} else {"f64"}, "calls": seq.iter().map(call_json).collect::<Vec<_>>()});
    let last_obs = seq.iter().rev().find_map(|c| if let Call::Obs { rows, cols } = c { Some((*rows, *cols)) } else { None });
    let last_w = seq.iter().rev().find_map(|c| if let Call::W { len, kind } = c { Some((*len, *kind)) } else { None });
    let last_e = seq.iter().rev().find_map(|c| if let Call::Eps(e) = c { Some(*e) } else { None });
    let want = violated(cfg, last_obs, last_w.map(|w| w.0));
    tally.0 += 1;
    tally.2 += seq.len() as u64 + 2;
    let r = guarded(|| run_sequence::<T>(cfg, seq));
    let built = match r {
        Err(p) => {
            ctx.with(|s| s.violate("C18", "panic", case(), format!("builder panicked: {}", p)));
            return;
        }
        Ok(r) => r,
    };
    match built {
        Err(e) => {
            let k = err_kind(&e).to_string();
            if want.is_empty() {
                ctx.with(|s| s.violate("C18", "rejected-consistent-inputs", case(), format!("build() returned {} although every requirement is met", e)));
            } else if !want.contains(k.as_str()) {
                ctx.with(|s| s.violate("C18", &format!("wrong-error:{}", k), case(), format!("build() returned {} but the violated requirements are {:?}", e, want)));
            }
            ctx.with(|s| s.bucket("impl_error_kinds", &k));
        }
        Ok(p) => {
            if !want.is_empty() {
                ctx.with(|s| s.violate("C18", "accepted-inconsistent-inputs", case(), format!("build() returned Ok although {:?} is violated", want)));
                return;
            }
            tally.1 += 1;
            let o: Obs<T> = observe(p.as_ref());
            // starts at the model's parameters
            let init = model::<T>(cfg);
            use varpro::prelude::SeparableNonlinearModel;
            let ip: Vec<u64> = init.params().iter().map(|v| v.bits()).collect();
            if o.params != ip {
                ctx.with(|s| s.violate("C18", "does-not-start-at-model-parameters", case(), format!("params() = {:?}", o.params_t())));
            }
            if o.res.is_none() || o.coef.is_none() {
                ctx.with(|s| s.violate("C18", "no-initial-state", case(), "a successfully built problem exposes no residuals/coefficients for the model's parameters".into()));
                return;
            }
            // ... equal to what an explicit set_params(initial) gives
            let mut p2 = p.clone_box();
            p2.set(&init.params());
            if observe(p2.as_ref()) != o {
                ctx.with(|s| s.violate("C18", "initial-state-differs-from-set-params", case(), "state after build differs from the state after set_params(initial parameters)".into()));
            }
            // order and repetition of calls do not matter: canonical sequence of the last call of each kind
            let (lr, lc) = last_obs.unwrap();
            let mut canon = vec![Call::Obs { rows: lr, cols: lc }];
            if let Some((l, k)) = last_w {
                canon.push(Call::W { len: l, kind: k });
            }
            if let Some(e) = last_e {
                canon.push(Call::Eps(e));
            }
            if canon.as_slice() != seq {
                match run_sequence::<T>(cfg, &canon) {
                    Ok(pc) => {
                        if observe(pc.as_ref()) != o {
                            ctx.with(|s| s.violate("C18", "call-order-matters", case(), format!("the same settings applied in canonical order {:?} give a different problem", canon.iter().map(call_json).collect::<Vec<_>>())));
                        }
                    }
                    Err(e) => ctx.with(|s| s.violate("C18", "call-order-matters", case(), format!("canonical order is rejected with {}", e))),
                }
            }
            // whatever the threshold does to the coefficients, the exposed residuals belong to the exposed coefficients:
            // residuals = W (Y - Phi(initial parameters) C), column after column
            {
                let (lr, lc) = last_obs.unwrap();
                let ncols = if cfg.mrhs { lc } else { 1 };
                let y: DMatrix<f64> = ymat::<T>(cfg, lr, ncols).map(|v| v.d());
                let wv: Vec<f64> = match last_w {
                    Some((l, k)) => wvec::<T>(l, k).iter().map(|v| v.d()).collect(),
                    None => vec![1.0; lr],
                };
                let phi: DMatrix<f64> = init.eval().expect("harness model evaluates").map(|v| v.d());
                let c = o.coef_f64().unwrap();
                let res: Vec<f64> = o.res.as_ref().unwrap().iter().map(|b| T::from_bits64(*b).d()).collect();
                if c.nrows() == phi.ncols() && c.ncols() == ncols && res.len() == lr * ncols {
                    let fit = &phi * &c;
                    let mut worst = 0.0f64;
                    let mut scale = 0.0f64;
                    for s_ in 0..ncols {
                        for i in 0..lr {
                            let want = wv[i] * (y[(i, s_)] - fit[(i, s_)]);
                            worst = worst.max((res[s_ * lr + i] - want).abs());
                            scale = scale.max((wv[i] * y[(i, s_)]).abs()).max((wv[i] * fit[(i, s_)]).abs());
                        }
                    }
                    let tol = 64.0 * (phi.ncols() as f64 + 2.0) * T::EPS * scale;
                    if !(worst <= tol) {
                        ctx.with(|s| s.violate("C18", "initial-residuals-not-W(Y-Phi C)", case(), format!("max deviation {:e} (tolerance {:e}) between the exposed residuals and W(Y - Phi C) for the exposed coefficients", worst, tol)));
                    }
                    ctx.with(|s| s.inc("initial_residuals_checked"));
                } else {
                    ctx.with(|s| s.violate("C18", "initial-state-shape", case(), format!("coefficients {}x{}, residuals {} for {} samples, {} right-hand sides, {} basis functions", c.nrows(), c.ncols(), res.len(), lr, ncols, phi.ncols())));
                }
            }
            // the exposed coefficients and residuals are the least-squares solution for the model's parameters (dense basis)
            if cfg.out_len == 5 {
                let (lr, lc) = last_obs.unwrap();
                let y: DMatrix<f64> = ymat::<T>(cfg, lr, if cfg.mrhs { lc } else { 1 }).map(|v| v.d());
                let wv: Vec<f64> = match last_w {
                    Some((l, k)) => wvec::<T>(l, k).iter().map(|v| v.d()).collect(),
                    None => vec![1.0; 5],
                };
                let phi_w = DMatrix::<f64>::from_fn(5, 3, |i, j| wv[i] * DENSE[i * 3 + j]);
                let y_w = DMatrix::<f64>::from_fn(5, y.ncols(), |i, s| wv[i] * y[(i, s)]);
                let rs = vpmc::refla::svd_jacobi(&phi_w);
                let thr = last_e.map(|e| T::f(e).d().abs()).unwrap_or(T::EPS);
                let smin = rs.s.iter().cloned().fold(f64::INFINITY, f64::min);
                if smin >= 2.0 * thr {
                    let c_ref = rs.solve(&y_w, 0.0);
                    let r_ref = &y_w - &phi_w * &c_ref;
                    let c = o.coef_f64().unwrap();
                    let scale = c_ref.iter().fold(0.0f64, |a, b| a.max(b.abs())).max(1.0);
                    let tol = 256.0 * T::EPS * scale;
                    // the residuals carry the weights' magnitude (unchanged for the weights up to 4 of the other kinds)
                    let wscale = wv.iter().fold(0.0f64, |a, b| a.max(b.abs() / 4.0)).max(1.0);
                    let dc = (0..c_ref.len()).map(|i| (c.as_slice()[i] - c_ref.as_slice()[i]).abs()).fold(0.0f64, f64::max);
                    let res: Vec<f64> = o.res.as_ref().unwrap().iter().map(|b| T::from_bits64(*b).d()).collect();
                    let dr = (0..r_ref.len()).map(|i| (res[i] - r_ref.as_slice()[i]).abs()).fold(0.0f64, f64::max);
                    if c.nrows() != 3 || c.ncols() != c_ref.ncols() || !(dc <= tol) || res.len() != r_ref.len() || !(dr <= 4.0 * tol * wscale) {
                        ctx.with(|s| s.violate("C18", "initial-state-not-least-squares", case(), format!("coefficients deviate by {:e}, residuals by {:e} from the weighted least-squares solution (tolerance {:e}; smallest singular value {:e}, threshold {:e})", dc, dr, tol, smin, thr)));
                    }
                    ctx.with(|s| s.inc("dense_initial_state_checked"));
                }
            }
            // threshold semantics on the crafted diagonal basis (out_len = 3): c2 = 3 (kept) or 0 (truncated)
            if cfg.out_len == 3 {
                let d2 = d2_of::<T>(cfg);
                let wmin = match last_w {
                    Some((_, 1)) => 0.5,
                    Some((_, 2)) => 0.5 * 2.0f64.powi(66),
                    _ => 1.0,
                }; // weight on row 1 is 0.5 for the ramp kind
                let s2 = d2 * wmin;
                let thr = last_e.map(|e| T::f(e).d().abs()).unwrap_or(T::EPS);
                let c = o.coef_f64().unwrap();
                let expect_kept = if s2 >= 2.0 * thr && s2 > 0.0 {
                    Some(true)
                } else if s2 <= 0.5 * thr {
                    Some(false)
                } else {
                    None
                };
                if let Some(kept) = expect_kept {
                    for col in 0..c.ncols() {
                        let want2 = if kept { 3.0 * (col as f64 + 1.0) } else { 0.0 };
                        let got = c[(1, col)];
                        if !((got - want2).abs() <= 1e-3 * (col as f64 + 1.0)) {
                            ctx.with(|s| {
                                s.violate(
                                    "C18",
                                    "threshold-semantics",
                                    case(),
                                    format!("second singular value {:e}, threshold |eps| = {:e} ({}): coefficient[1,{}] = {:e}, expected {:e}", s2, thr, if last_e.is_some() { "configured" } else { "default = machine epsilon" }, col, got, want2),
                                )
                            });
                        }
                    }
                    ctx.with(|s| s.inc(if kept { "threshold_observed_kept" } else { "threshold_observed_truncated" }));
                }
            }
        }
    }
}


// ------------------------------------------------------------------------------------------------
// value grid: the requirements of build() are requirements on SHAPES; for consistent shapes every VALUE of the
// observations, the weights and the threshold is accepted (and nothing panics or hangs)

/// the special values of one scalar width, as f64 (converted with `T::f`)
fn special_values(f32_: bool) -> Vec<f64> {
    if f32_ {
        vec![0.0, -0.0, -1.0, 1.4e-45, 1.1754944e-38, 1.1920929e-7, 1e-18, 1e10, 1e20, -1e20, 3.4028235e38, f64::INFINITY, f64::NEG_INFINITY, f64::NAN]
    } else {
        vec![0.0, -0.0, -1.0, 5e-324, 2.2250738585072014e-308, 2.220446049250313e-16, 1e-18, 1e10, 1e160, -1e160, 1.7976931348623157e308, f64::INFINITY, f64::NEG_INFINITY, f64::NAN]
    }
}

/// pattern 0 = the base vector, 1 = every entry the value, 2/3/4 = the value at the first / middle / last position
fn patterned(base: &[f64], pat: u8, v: f64) -> Vec<f64> {
    let n = base.len();
    (0..n)
        .map(|i| match pat {
            0 => base[i],
            1 => v,
            2 if i == 0 => v,
            3 if i == n / 2 => v,
            4 if i == n - 1 => v,
            _ => base[i],
        })
        .collect()
}

fn enc(v: f64) -> Value {
    if v.is_finite() {
        json!(v)
    } else {
        json!(format!("{}", v))
    }
}
fn dec(v: &Value) -> f64 {
    match v {
        Value::String(s) => s.parse().unwrap(),
        _ => v.as_f64().unwrap(),
    }
}

#[derive(Clone, Copy)]
struct VCase {
    ypat: u8,
    yval: f64,
    /// 255 = no weights
    wpat: u8,
    wval: f64,
    eps: Option<f64>,
}

fn check_values<T: Sc>(ctx: &Ctx, cfg: &Cfg, vc: &VCase) {
    let case = || {
        json!({"value_grid": true, "mrhs": cfg.mrhs, "par": cfg.par, "model_output_len": cfg.out_len, "tiny_d2": false, "scalar": if cfg.f32_ {"f32"} else {"f64"},
               "observations": {"pattern": vc.ypat, "value": enc(vc.yval)}, "weights": if vc.wpat == 255 { Value::Null } else { json!({"pattern": vc.wpat, "value": enc(vc.wval)}) },
               "epsilon": vc.eps.map(enc)})
    };
    let n = cfg.out_len;
    let cols = if cfg.mrhs { 2 } else { 1 };
    let y0 = ymat::<T>(cfg, n, cols);
    // the pattern goes into the last column
    let ycol: Vec<f64> = patterned(&(0..n).map(|i| y0[(i, cols - 1)].d()).collect::<Vec<_>>(), vc.ypat, vc.yval);
    let y = DMatrix::<T>::from_fn(n, cols, |i, s| if s == cols - 1 { T::f(ycol[i]) } else { y0[(i, s)] });
    let w: Option<DVector<T>> = if vc.wpat == 255 {
        None
    } else {
        let base: Vec<f64> = wvec::<T>(n, 1).iter().map(|v| v.d()).collect();
        Some(DVector::from_vec(patterned(&base, vc.wpat, vc.wval).into_iter().map(T::f).collect()))
    };
    let eps = vc.eps.map(T::f);
    let api = if cfg.mrhs { vpmc::prob::Api::Mrhs } else { vpmc::prob::Api::Single };
    ctx.with(|s| {
        s.inc("value_grid_builds");
        s.inc("states");
        s.inc("evaluations");
        s.inc("traces_validated");
        s.add("transitions", 4);
    });
    let r = guarded(|| vpmc::prob::build(model::<T>(cfg), &y, w.as_ref(), eps, api, cfg.par).map(|p| observe(p.as_ref())));
    match r {
        Err(p) => ctx.with(|s| s.violate("C18", "panic", case(), format!("builder panicked: {}", p))),
        Ok(Err(e)) => ctx.with(|s| s.violate("C18", "rejected-consistent-inputs", case(), format!("build() returned {} although every requirement (all of them on shapes) is met", e))),
        Ok(Ok(o)) => {
            let o: Obs<T> = o;
            ctx.with(|s| s.inc("distinct_nontrivial"));
            if o.params.len() != 1 || T::from_bits64(o.params[0]).d() != 1.0 {
                ctx.with(|s| s.violate("C18", "initial-parameters", case(), "the built problem does not report the model's initial parameters".to_string()));
            }
            // benign values (every product representable with room to spare): the initial state is present
            let benign = |v: f64| v.is_finite() && v.abs() >= 1e-18 && v.abs() <= 1e10;
            let e_ok = vc.eps.map(|e| e.is_finite() && e.abs() < 1e-3).unwrap_or(true);
            if ycol.iter().all(|v| benign(*v) || *v == 0.0) && w.as_ref().map(|w| w.iter().all(|v| benign(v.d()) || v.d() == 0.0)).unwrap_or(true) && e_ok && (o.res.is_none() || o.coef.is_none()) {
                ctx.with(|s| s.violate("C18", "initial-state-absent", case(), "finite moderate inputs, yet the built problem exposes no residuals / coefficients for the initial parameters".to_string()));
            }
        }
    }
}

fn value_grid(ctx: &Ctx, thorough: bool, block: &mut u64) {
    for mrhs in [false, true] {
        for par in [false, true] {
            for out_len in [5usize, 3] {
                for f32_ in [false, true] {
                    if !thorough && (out_len == 3 && (par || mrhs)) {
                        continue;
                    }
                    let cfg = Cfg { mrhs, par, out_len, tiny_d2: false, f32_ };
                    let vals = special_values(f32_);
                    let mut pats: Vec<(u8, f64)> = vec![(0, 0.0)];
                    for v in &vals {
                        for p in 1..=4u8 {
                            pats.push((p, *v));
                        }
                    }
                    let mut wp: Vec<(u8, f64)> = vec![(255, 0.0)];
                    wp.extend(pats.iter().cloned());
                    let sub = if f32_ { 1.4e-45 } else { 5e-324 };
                    let epss: Vec<Option<f64>> = if thorough { vec![None, Some(0.0), Some(-0.0), Some(sub), Some(-1e-30), Some(1e-2), Some(f64::INFINITY), Some(f64::NAN)] } else { vec![None, Some(0.0), Some(-1e-30), Some(f64::NAN)] };
                    for (yp, yv) in &pats {
                        let mine = ctx.args.mine(*block);
                        *block += 1;
                        if !mine {
                            continue;
                        }
                        ctx.begin(*block);
                        for (wpat, wv) in &wp {
                            for e in &epss {
                                let vc = VCase { ypat: *yp, yval: *yv, wpat: *wpat, wval: *wv, eps: *e };
                                if f32_ {
                                    check_values::<f32>(ctx, &cfg, &vc)
                                } else {
                                    check_values::<f64>(ctx, &cfg, &vc)
                                }
                            }
                        }
                    }
                }
            }
        }
    }
}

fn alphabet(cfg: &Cfg, thorough: bool) -> Vec<Call> {
    let mut v = vec![];
    let big = cfg.out_len >= 100;
    let dense = cfg.out_len == 5;
    let rows: Vec<usize> = if big { vec![cfg.out_len, cfg.out_len - 1, 0, 256] } else if dense { vec![5, 4, 0, 6] } else { vec![3, 1, 0, 2, 4] };
    let cols: Vec<usize> = if cfg.mrhs { if big { vec![1, 40] } else { vec![1, 2, 0, 3] } } else { vec![1] };
    for &r in &rows {
        for &c in &cols {
            v.push(Call::Obs { rows: r, cols: c });
        }
    }
    let wlens: Vec<usize> = if big { vec![cfg.out_len, cfg.out_len - 1, 0, cfg.out_len * 40] } else if dense { vec![5, 4, 6] } else { vec![3, 0, 2, 4, 1] };
    for len in wlens {
        for kind in [1u8, 0] {
            if len == 0 && kind == 0 {
                continue;
            }
            v.push(Call::W { len, kind });
        }
    }
    if !big && cfg.out_len != 4 {
        // finite weights whose squares are not finite in f32: consistent input like any other weights of the right length
        v.push(Call::W { len: cfg.out_len, kind: 2 });
    }
    for e in [1e-2, -1e-2, 1e-8, -1e-8, 0.0] {
        v.push(Call::Eps(e));
    }
    if dense {
        // large thresholds that still lie below every singular value of the dense basis
        v.push(Call::Eps(0.05));
        v.push(Call::Eps(-0.125));
    }
    if thorough {
        v.push(Call::Eps(1e-300));
        v.push(Call::Eps(-0.0));
    }
    v
}

fn main() {
    engine_main("pbuilder", |ctx: Arc<Ctx>| {
        if let Some(r) = &ctx.args.replay {
            let v: Value = serde_json::from_str(r).unwrap();
            let cfg = Cfg { mrhs: v["mrhs"].as_bool().unwrap(), par: v["par"].as_bool().unwrap(), out_len: v["model_output_len"].as_u64().unwrap() as usize, tiny_d2: v["tiny_d2"].as_bool().unwrap(), f32_: v["scalar"] == "f32" };
            if v["value_grid"] == true {
                let (wpat, wval) = if v["weights"].is_null() { (255u8, 0.0) } else { (v["weights"]["pattern"].as_u64().unwrap() as u8, dec(&v["weights"]["value"])) };
                let vc = VCase { ypat: v["observations"]["pattern"].as_u64().unwrap() as u8, yval: dec(&v["observations"]["value"]), wpat, wval, eps: if v["epsilon"].is_null() { None } else { Some(dec(&v["epsilon"])) } };
                if cfg.f32_ {
                    check_values::<f32>(&ctx, &cfg, &vc)
                } else {
                    check_values::<f64>(&ctx, &cfg, &vc)
                }
                return;
            }
            let seq: Vec<Call> = v["calls"].as_array().unwrap().iter().map(call_parse).collect();
            let mut t = (0, 0, 0);
            if cfg.f32_ {
                check_sequence::<f32>(&ctx, &cfg, &seq, &mut t)
            } else {
                check_sequence::<f64>(&ctx, &cfg, &seq, &mut t)
            }
            return;
        }
        let thorough = ctx.args.thorough();
        let lmax: usize = ctx.args.extra.get("depth").map(|s| s.parse().unwrap()).unwrap_or(if thorough { 4 } else { 3 });
        let mut block = 0u64;
        let mut tally = (0u64, 0u64, 0u64);
        for mrhs in [false, true] {
            for par in [false, true] {
                for out_len in [3usize, 1, 0, 300, 5, 4, 2] {
                    for tiny_d2 in [false, true] {
                        if tiny_d2 && out_len != 3 {
                            continue;
                        }
                        for f32_ in [false, true] {
                            if f32_ && !thorough && (par || tiny_d2 == false && mrhs) {
                                continue;
                            }
                            if out_len >= 100 && (f32_ || (par && !thorough)) {
                                continue;
                            }
                            let cfg = Cfg { mrhs, par, out_len, tiny_d2, f32_ };
                            let alpha = alphabet(&cfg, thorough);
                            // sequences of length 4 only for the mrhs constructors in thorough mode are costly: full anyway
                            for len in 0..=(if out_len >= 100 { lmax.min(3) } else { lmax }) {
                                let total = (alpha.len() as u64).pow(len as u32);
                                let mut start = 0u64;
                                while start < total {
                                    let end = (start + 4096).min(total);
                                    let mine = ctx.args.mine(block);
                                    block += 1;
                                    if mine {
                                        ctx.begin(block);
                                        for mut k in start..end {
                                            let mut seq = vec![Call::Eps(0.0); len];
                                            for i in (0..len).rev() {
                                                seq[i] = alpha[(k % alpha.len() as u64) as usize];
                                                k /= alpha.len() as u64;
                                            }
                                            if f32_ {
                                                check_sequence::<f32>(&ctx, &cfg, &seq, &mut tally);
                                            } else {
                                                check_sequence::<f64>(&ctx, &cfg, &seq, &mut tally);
                                            }
                                            if tally.0 % 40_000 == 11 {
                                                ctx.with(|s| s.sample(json!({"constructor": format!("{}{}", if mrhs {"mrhs"} else {"new"}, if par {"_parallel"} else {""}), "model_output_len": out_len, "calls": seq.iter().map(call_json).collect::<Vec<_>>()})));
                                            }
                                        }
                                    }
                                    start = end;
                                }
                            }
                        }
                    }
                }
            }
        }
        value_grid(&ctx, thorough, &mut block);
        ctx.with(|s| {
            s.add("states", tally.0);
            s.add("evaluations", tally.0);
            s.add("traces_validated", tally.0);
            s.add("distinct_nontrivial", tally.0);
            s.add("accepted", tally.1);
            s.add("transitions", tally.2);
            s.maxes.insert("length_completed".into(), lmax as f64);
        });
    });
}
