use nalgebra::{DMatrix, DVector};
use vpmc::refla;
fn main() {
    // a 6x3 matrix with one tiny column: how accurate is nalgebra's SVD-based least squares?
    for tiny in [1e-3, 1e-8, 1e-12, 1e-17, 1e-30, 0.0] {
        let n = 8;
        let a = DMatrix::from_fn(n, 3, |i, j| { let x = i as f64 * 0.5; match j { 0 => tiny * (-(x - 1.0) * (x - 1.0)).exp(), 1 => (-x / 58.0).exp(), _ => 1.0 } });
        let y = DMatrix::from_fn(n, 1, |i, _| 1.0 + 0.3 * (i as f64).sin());
        let svd = a.clone().svd(true, true);
        let c = svd.solve(&y, 1e-6).unwrap();
        let u = svd.u.as_ref().unwrap(); let vt = svd.v_t.as_ref().unwrap();
        let rec = u * DMatrix::from_diagonal(&svd.singular_values) * vt;
        let rs = refla::svd_jacobi(&a);
        let kept: Vec<bool> = rs.s.iter().map(|s| *s > 1e-6).collect();
        let mut utb = rs.u.transpose() * &y;
        for j in 0..3 { let f = if kept[j] { 1.0 / rs.s[j] } else { 0.0 }; utb[(j,0)] *= f; }
        let cr = &rs.v * utb;
        println!("tiny {:e}: nalgebra backward err {:e}; s {:?}; |c - c_ref|/|c_ref| = {:e}", tiny, refla::fro(&(&rec - &a)) / refla::fro(&a), svd.singular_values.as_slice(), (&c - &cr).norm() / cr.norm());
    }
    let _ = DVector::<f64>::zeros(1);
}
