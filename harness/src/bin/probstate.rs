//! E1 – explicit-state exploration of the real `LevMarProblem` under an alphabet
//! of parameter vectors: every history of `set_params` calls up to depth d is
//! executed (depth-first, cloning the live problem at every node), query
//! operations are checked to be self-loops, and in every reached state the
//! invariants of the requested property are evaluated:
//!   C01 optimal coefficients / truncation,   C02 residual + weighted-data + params identities,
//!   C03 Kaufman Jacobian,                    C06 weighted == row-scaled unweighted (lock-step twin),
//!   C07 mrhs == single problems (lock-step), C10 state is a function of alpha (== fresh problem),
//!   C11 parallel == sequential (lock-step twin).
use nalgebra::{DMatrix, DVector};
use serde_json::{json, Value};
use std::collections::BTreeMap;
use std::sync::Arc;
use vpmc::gen::*;
use vpmc::num::*;
use vpmc::oracle::*;
use vpmc::prob::{self, observe, Api, Obs, Prob};
use vpmc::refla;
use vpmc::run::*;
use vpmc::wrap::*;
use vpmc::zoo::*;

#[global_allocator]
static ALLOC: vpmc::poison::Poison = vpmc::poison::Poison;

static POOL1: std::sync::LazyLock<rayon::ThreadPool> = std::sync::LazyLock::new(|| rayon::ThreadPoolBuilder::new().num_threads(1).build().unwrap());
static POOL3: std::sync::LazyLock<rayon::ThreadPool> = std::sync::LazyLock::new(|| rayon::ThreadPoolBuilder::new().num_threads(3).build().unwrap());

#[derive(Debug, Clone, PartialEq)]
enum YCol {
    OnModel,
    Off,
    Noisy,
    TwiceOn,
    DupOn,
    Zero,
    OnPlusOff,
    ThreeOn,
    Custom(Vec<f64>),
    /// the noisy column scaled by 1e-3 (coefficients and W D_k C of order 1e-3)
    Small,
    /// the noisy column times 1e-24 (f32) / 1e-160 (f64): finite normal numbers, far below the other columns
    ScaleTiny,
    /// the off-model column times 1e22 (f32) / 1e170 (f64)
    ScaleHuge,
}

#[derive(Debug, Clone, Copy, PartialEq)]
enum EpsKind {
    Default,
    Val(f64),
}

#[derive(Debug, Clone)]
struct Scen {
    fam: Family,
    n: usize,
    prov: Prov,
    f32_: bool,
    par: bool,
    api: Api,
    ycols: Vec<YCol>,
    w: WKind,
    eps: EpsKind,
    alphas: Vec<Vec<f64>>,
    /// alphabet indices the (Domain-wrapped) model rejects
    domain: Option<(RejectAt, usize, f64)>,
    exact: bool,
    depth: usize,
    /// sample locations shifted by this amount (x > 0 makes exp(-x/tau) distinguish tau = +0.0 from tau = -0.0)
    xshift: f64,
    /// sample locations multiplied by this factor (the alphabet of decay constants is scaled alike by the scenario generator)
    xscale: f64,
}

fn scen_desc(s: &Scen) -> Value {
    json!({"family": s.fam.name(), "n": s.n, "prov": s.prov.name(), "scalar": if s.f32_ {"f32"} else {"f64"}, "par": s.par, "api": s.api.name(),
           "ycols": s.ycols.iter().map(|c| match c { YCol::Custom(_) => "Custom".to_string(), o => format!("{:?}", o) }).collect::<Vec<_>>(),
           "w": format!("{:?}", s.w), "eps": format!("{:?}", s.eps), "alphas": s.alphas, "domain": s.domain.map(|d| format!("{:?}", d)), "depth": s.depth, "xscale": s.xscale})
}

fn alphabet(fam: &Family, big: bool) -> Vec<Vec<f64>> {
    let mut v: Vec<Vec<f64>> = match fam {
        // 0.0625 / 0.00833: the last sample of the 7-point grid is exp(-96) (a denormal f32) resp. exp(-720) (a denormal f64)
        Family::Exp1Off => vec![vec![1.0], vec![1.25], vec![2.5], vec![0.3], vec![40.0], vec![0.001], vec![-0.001], vec![0.0625], vec![0.00833]],
        Family::Exp2Off => vec![vec![1.0, 3.5], vec![0.75, 3.0], vec![0.5, 5.0], vec![4.0, 0.2], vec![2.0, 2.0], vec![0.001, 3.0], vec![1.0, -0.001]],
        Family::Exp3 => vec![vec![0.6, 2.0, 5.0], vec![0.5, 1.75, 6.0], vec![1.0, 1.0, 4.0], vec![0.3, 3.0, 9.0], vec![2.0, 2.0, 2.0], vec![5.0, 0.5, 1.5]],
        Family::GaussDecayOff => vec![vec![2.2, 0.7, 1.4], vec![2.0, 0.625, 1.5], vec![1.0, 1.0, 3.0], vec![3.5, 0.3, 0.5], vec![2.5, 2.0, 2.0], vec![0.5, 0.5, 6.0]],
        Family::OLeary => vec![vec![0.5, 2.0, 3.0], vec![1.0, 2.5, 4.0], vec![2.0, 1.0, 5.0], vec![0.1, 0.2, 0.3], vec![1.5, 1.5, 1.5], vec![3.0, 0.5, 8.0]],
        Family::GenProd { p, .. } => {
            let base = [vec![0.8, 0.6, 1.2], vec![0.75, 0.625, 1.25], vec![0.3, 1.5, 0.4], vec![2.0, 0.1, 3.0], vec![1.0, 1.0, 1.0], vec![0.05, 2.5, 6.0]];
            base.iter().map(|a| a[..*p].to_vec()).collect()
        }
        // 1e20: finite in both widths, its square overflows f32;  1e160: likewise for f64 (and non-finite as f32)
        Family::PolyMat(s) => [1.0, 1e4, 1e-4, 3.0, 1e20, 1e160].iter().map(|a| vec![*a; s.p]).collect(),
        // the FIRST entry (the state build() starts from) is outside the model's domain
        Family::GuardExp => vec![vec![-1.0], vec![1.25], vec![2.5], vec![0.3], vec![0.0], vec![1.0]],
        Family::XExpSin => vec![vec![1.4, 2.1], vec![1.5, 2.0], vec![0.5, 3.0], vec![3.0, 0.7], vec![1.0, 1.0], vec![0.8, 5.0]],
        Family::Perm4 => vec![vec![0.6, 1.8, 0.4, 0.25], vec![0.5, 2.0, 0.3, 0.2], vec![1.0, 1.0, 1.0, 1.0], vec![0.2, 3.0, -0.5, 0.6], vec![0.5, 0.3, 2.0, 0.2], vec![1.5, 0.7, 0.1, 0.05]],
        Family::ExpN(n) => (0..4).map(|v| (0..*n).map(|j| 0.4 * 2.0f64.powi(j as i32) * (1.0 + 0.1 * v as f64)).collect()).collect(),
    };
    // moves of ONE coordinate: entry 0 with coordinate k taken from entry 1, for every k - all other parameters stay
    // bit-identical across the update (anything remembered per parameter must still notice that its function changed)
    if v[0].len() >= 2 && !matches!(fam, Family::PolyMat(_) | Family::ExpN(_)) {
        let (a, b) = (v[0].clone(), v[1].clone());
        for k in 0..a.len() {
            let mut c = a.clone();
            c[k] = b[k];
            v.push(c);
        }
    }
    if big {
        let extra: Vec<Vec<f64>> = v.iter().take(3).map(|a| a.iter().enumerate().map(|(k, x)| x * (1.0 + 0.07 * (k as f64 + 1.0))).collect()).collect();
        v.extend(extra);
    }
    v
}

struct Env<T: Sc> {
    spec: ModelSpec,
    y: DMatrix<T>,
    w: Option<DVector<T>>,
    eps: Option<T>,
    thr: f64,
}

fn ycolumn(spec: &ModelSpec, gen_alpha: &[f64], c: &YCol) -> DVector<f64> {
    let n = spec.n();
    let (_, ctrue) = truth(&spec.fam);
    let on = || -> DVector<f64> { spec.eval_ref::<f64>(gen_alpha) * DVector::from_vec(ctrue.clone()) };
    let off = || -> DVector<f64> { DVector::from_fn(n, |i, _| 1.0 / (1.0 + spec.x[i]) + 0.25 * spec.x[i]) };
    match c {
        YCol::OnModel | YCol::DupOn => on(),
        YCol::Off => off(),
        YCol::Noisy => {
            let y = on();
            let mx = y.amax().max(1e-300);
            let nz = noise(n, 3, 5);
            DVector::from_fn(n, |i, _| y[i] + 0.02 * mx * nz[i])
        }
        YCol::TwiceOn => on() * 2.0,
        YCol::ThreeOn => on() * 3.0,
        YCol::Zero => DVector::zeros(n),
        YCol::OnPlusOff => on() + off(),
        YCol::Custom(v) => DVector::from_vec(v.clone()),
        YCol::ScaleTiny => {
            let y = on();
            let mx = y.amax().max(1e-300);
            let nz = noise(n, 2, 9);
            DVector::from_fn(n, |i, _| y[i] + 0.02 * mx * nz[i])
        }
        YCol::ScaleHuge => off(),
        YCol::Small => {
            let y = on();
            let mx = y.amax().max(1e-300);
            let nz = noise(n, 3, 5);
            DVector::from_fn(n, |i, _| 1e-3 * (y[i] + 0.02 * mx * nz[i]))
        }
    }
}

impl<T: Sc> Env<T> {
    fn new(sc: &Scen) -> Self {
        let mut spec = spec_for(&sc.fam, sc.n);
        for v in spec.x.iter_mut() {
            *v += sc.xshift;
            *v *= sc.xscale;
        }
        let gen_alpha = &sc.alphas[1.min(sc.alphas.len() - 1)];
        let mut y = DMatrix::<f64>::zeros(sc.n, sc.ycols.len());
        for (s, c) in sc.ycols.iter().enumerate() {
            y.set_column(s, &ycolumn(&spec, gen_alpha, c));
        }
        for (s, c) in sc.ycols.iter().enumerate() {
            let f32_ = T::EPS > 1e-10;
            let factor = match c {
                YCol::ScaleTiny => if f32_ { 1e-24 } else { 1e-160 },
                YCol::ScaleHuge => if f32_ { 1e22 } else { 1e170 },
                _ => 1.0,
            };
            if factor != 1.0 {
                for i in 0..sc.n {
                    y[(i, s)] *= factor;
                }
            }
        }
        // the observation alphabet is rounded to T first, so sums of columns are taken of the T values
        let mut yt: DMatrix<T> = mat_t(&y);
        for (s, c) in sc.ycols.iter().enumerate() {
            // keep linear relations exact in T: derived columns are recomputed from the rounded base columns
            let find = |k: &YCol| sc.ycols.iter().position(|x| x == k);
            match c {
                YCol::TwiceOn => {
                    if let Some(b) = find(&YCol::OnModel) {
                        for i in 0..sc.n {
                            yt[(i, s)] = yt[(i, b)] * T::f(2.0);
                        }
                    }
                }
                YCol::ThreeOn => {
                    if let Some(b) = find(&YCol::OnModel) {
                        for i in 0..sc.n {
                            yt[(i, s)] = yt[(i, b)] * T::f(3.0);
                        }
                    }
                }
                YCol::OnPlusOff => {
                    if let (Some(a), Some(b)) = (find(&YCol::OnModel), find(&YCol::Off)) {
                        for i in 0..sc.n {
                            yt[(i, s)] = yt[(i, a)] + yt[(i, b)];
                        }
                    }
                }
                _ => {}
            }
        }
        let eps = match sc.eps {
            EpsKind::Default => None,
            EpsKind::Val(v) => Some(T::f(v)),
        };
        let thr = match eps {
            None => T::EPS,
            Some(e) => e.d().abs(),
        };
        Env { spec, y: yt, w: sc.w.make(sc.n).map(|w| vec_t::<T>(&w)), eps, thr }
    }
    fn model(&self, sc: &Scen, a: &[T]) -> BM<T> {
        let m = make_t::<T>(&self.spec, sc.prov, a);
        match sc.domain {
            Some((at, idx, thr)) => Domain::wrap(m, at, idx, thr),
            None => m,
        }
    }
    fn build(&self, sc: &Scen, a: &[T], par: bool) -> Box<dyn Prob<T>> {
        prob::build(self.model(sc, a), &self.y, self.w.as_ref(), self.eps, sc.api, par).expect("scenario builds")
    }
}

#[derive(Debug, Clone, PartialEq)]
enum Role {
    Subject,
    /// same problem, other flavour (C11)
    OtherFlavour,
    /// the parallel problem converted to its sequential form right after build, then driven like the subject (C11)
    Converted,
    /// row-scaled model, pre-weighted data, no weights (C06)
    RowScaled,
    /// no weights at all (for unit weights, C06)
    Unweighted,
    /// the same weighted problem, built with a provisional (different) weights call before the final one (C06: applied exactly once)
    Reweighted,
    /// row `i` deleted from model, data and weights (zero weight, C06)
    RowDeleted(usize),
    /// |w| instead of w (negative weight, C06)
    AbsWeights(usize),
    /// single-rhs problem for column s (C07)
    SingleCol(usize),
    /// single-rhs problem for column s in the other flavour (the single problem "yields" the same in both flavours)
    SingleColOther(usize),
}

fn build_role<T: Sc>(env: &Env<T>, sc: &Scen, role: &Role, a: &[T]) -> Box<dyn Prob<T>> {
    match role {
        Role::Subject => env.build(sc, a, sc.par),
        Role::OtherFlavour => env.build(sc, a, !sc.par),
        Role::Converted => env.build(sc, a, sc.par).into_sequential(),
        Role::RowScaled => {
            let w = env.w.clone().unwrap();
            let mut ys = env.y.clone();
            for j in 0..ys.ncols() {
                for i in 0..ys.nrows() {
                    ys[(i, j)] = ys[(i, j)] * w[i];
                }
            }
            let m = RowScaled::wrap(env.model(sc, a), w);
            prob::build(m, &ys, None, env.eps, sc.api, sc.par).unwrap()
        }
        Role::Unweighted => prob::build(env.model(sc, a), &env.y, None, env.eps, sc.api, sc.par).unwrap(),
        Role::Reweighted => {
            let w = env.w.clone().unwrap();
            let provisional = w.map(|v| v * T::f(3.0) + T::f(0.25));
            prob::build_reweighted(env.model(sc, a), &env.y, &provisional, &w, env.eps, sc.api, sc.par).unwrap()
        }
        Role::RowDeleted(i) => {
            let keep: Vec<usize> = (0..sc.n).filter(|r| r != i).collect();
            let y2 = DMatrix::from_fn(keep.len(), env.y.ncols(), |r, c| env.y[(keep[r], c)]);
            let w2 = env.w.as_ref().map(|w| DVector::from_fn(keep.len(), |r, _| w[keep[r]]));
            let m = RowsDeleted::wrap(env.model(sc, a), keep);
            prob::build(m, &y2, w2.as_ref(), env.eps, sc.api, sc.par).unwrap()
        }
        Role::AbsWeights(_) => {
            let w2 = env.w.as_ref().map(|w| w.map(|v| num_traits::Float::abs(v)));
            prob::build(env.model(sc, a), &env.y, w2.as_ref(), env.eps, sc.api, sc.par).unwrap()
        }
        Role::SingleCol(s) | Role::SingleColOther(s) => {
            let y1 = DMatrix::from_column_slice(sc.n, 1, env.y.column(*s).clone_owned().as_slice());
            let par = if matches!(role, Role::SingleColOther(_)) { !sc.par } else { sc.par };
            prob::build(env.model(sc, a), &y1, env.w.as_ref(), env.eps, Api::Single, par).unwrap()
        }
    }
}

fn roles_for(sc: &Scen, prop: &str) -> Vec<Role> {
    let mut r = vec![Role::Subject];
    match prop {
        "C11" => {
            r.push(Role::OtherFlavour);
            if sc.par {
                r.push(Role::Converted);
            }
        }
        "C01" | "C02" => {
            if !matches!(sc.w, WKind::None) {
                r.push(Role::Reweighted);
            }
        }
        "C06" => match sc.w {
            WKind::None => {}
            WKind::Ones => r.push(Role::Unweighted),
            WKind::ZeroAt(i) => {
                r.push(Role::RowScaled);
                r.push(Role::RowDeleted(i % sc.n));
            }
            WKind::NegAt(i) => {
                r.push(Role::RowScaled);
                r.push(Role::AbsWeights(i % sc.n));
            }
            _ => {
                r.push(Role::RowScaled);
                r.push(Role::Reweighted);
            }
        },
        "C07" => {
            for s in 0..sc.ycols.len() {
                r.push(Role::SingleCol(s));
            }
            r.push(Role::SingleColOther(sc.ycols.len() - 1));
        }
        _ => {}
    }
    r
}

struct Explorer<'a, T: Sc> {
    ctx: &'a Ctx,
    sc: &'a Scen,
    sc_index: usize,
    prop: &'a str,
    env: Env<T>,
    roles: Vec<Role>,
    alphas_t: Vec<Vec<T>>,
    failing: Vec<bool>,
    /// first key seen per alphabet index, with the history that produced it
    seen: BTreeMap<usize, (u64, Vec<usize>, Obs<T>)>,
    refs: BTreeMap<usize, Reference>,
    keys: std::collections::BTreeSet<u64>,
    hist: Vec<usize>,
    transitions: u64,
    bitwise_equal_twins: u64,
    tolerance_twins: u64,
    only_path: Option<Vec<usize>>,
    /// replay: a second history that is executed as well (the one the violating history was compared with)
    companion_path: Option<Vec<usize>>,
    /// set while a history-dependence violation is reported: the history that reached the state first
    compared_with: Option<Vec<usize>>,
    long_walk_steps: u64,
}

impl<'a, T: Sc> Explorer<'a, T> {
    fn case(&self) -> Value {
        let mut v = json!({"tier": self.ctx.args.tier, "scenario_index": self.sc_index, "history": self.hist, "scenario": scen_desc(self.sc),
               "alphas_in_history": self.hist.iter().map(|&i| self.sc.alphas[i].clone()).collect::<Vec<_>>()});
        if let Some(h0) = &self.compared_with {
            v["compared_with_history"] = json!(h0);
        }
        v
    }
    fn violate(&self, prop: &str, sig: &str, detail: String) {
        let c = self.case();
        self.ctx.with(|s| s.violate(prop, sig, c, detail));
    }

    fn reference_for(&mut self, ai: usize) -> &Reference {
        if !self.refs.contains_key(&ai) {
            let r = reference::<T>(&self.env.spec, &self.alphas_t[ai], &self.env.y, self.env.w.as_ref(), self.env.thr, self.sc.exact);
            self.refs.insert(ai, r);
        }
        &self.refs[&ai]
    }

    /// checks at a reached state; `ai` = index of the parameter vector applied last (None = state after build)
    fn check_state(&mut self, node: &[Box<dyn Prob<T>>], ai: usize, prev_params: Option<Vec<u64>>) {
        let subject = node[0].as_ref();
        let o1 = observe(subject);
        let o2 = observe(subject);
        if o1 != o2 {
            self.violate("C10", "repeated-query-differs", "two consecutive rounds of params/residuals/coefficients/jacobian queries returned different values".into());
        }
        let key = o1.key();
        self.keys.insert(key);
        let failing = self.failing[ai];
        let first_visit = !self.seen.contains_key(&ai);
        if failing {
            // the model rejected these parameters: nothing may be exposed for them
            if o1.res.is_some() || o1.coef.is_some() || o1.jac.is_some() {
                self.violate("C10", "present-after-failed-update", format!("alphabet entry {} is rejected by the model, but the problem exposes residuals={} coefficients={} jacobian={}", ai, o1.res.is_some(), o1.coef.is_some(), o1.jac.is_some()));
                self.violate("C09", "present-after-failed-update", format!("alphabet entry {} is rejected by the model, but the problem exposes values", ai));
            }
            if let (Some((RejectAt::Set, _, _)), Some(pp)) = (self.sc.domain, prev_params) {
                if o1.params != pp {
                    self.violate("C10", "params-changed-by-rejected-update", "a rejected parameter vector changed params()".into());
                }
            }
            self.ctx.with(|s| s.inc("failed_update_states"));
            return;
        }
        // params() is the alpha applied last
        let want: Vec<u64> = self.alphas_t[ai].iter().map(|v| v.bits()).collect();
        if o1.params != want {
            self.violate("C02", "params-not-last-applied", format!("params() = {:?} but the parameters applied last were {:?}", o1.params_t(), self.alphas_t[ai]));
        }
        // single-valuedness of alpha -> state over all histories (C10)
        match self.seen.get(&ai) {
            Some((k0, h0, first)) => {
                if *k0 != key {
                    let h0 = h0.clone();
                    let first = first.clone();
                    self.compared_with = Some(h0.clone());
                    self.violate("C10", "history-dependent-state", format!("state for alphabet entry {} differs between history {:?} and history {:?}", ai, h0, self.hist));
                    // the state reached first was validated by this property's oracle; a different state at the same
                    // parameters therefore carries values that are not the ones the property demands for these parameters
                    let p = self.prop.to_string();
                    let differs = match p.as_str() {
                        "C01" => first.coef != o1.coef,
                        "C02" => first.res != o1.res || first.coef != o1.coef,
                        "C03" => first.jac != o1.jac,
                        "C11" => true,
                        _ => false,
                    };
                    if differs {
                        self.violate(&p, "values-depend-on-history", format!("after history {:?} the reported values for alphabet entry {} differ from those validated after history {:?}", self.hist, ai, h0));
                    }
                    self.compared_with = None;
                }
            }
            None => {
                self.seen.insert(ai, (key, self.hist.clone(), o1.clone()));
            }
        }
        if first_visit {
            // == freshly built problem at alpha
            let fresh = observe(build_role(&self.env, self.sc, &Role::Subject, &self.alphas_t[ai]).as_ref());
            if fresh != o1 {
                let what = if fresh.res != o1.res { "residuals" } else if fresh.coef != o1.coef { "coefficients" } else if fresh.jac != o1.jac { "jacobian" } else { "params" };
                self.violate("C10", "differs-from-fresh-problem", format!("{} after history {:?} differ (bitwise) from those of a freshly built problem at the same parameters", what, self.hist));
            }
            self.heavy(&o1, ai);
            if self.sc.par && self.prop == "C03" {
                // a parallel problem computes its Jacobian in the worker pool it is queried in: the Jacobian must be the Kaufman
                // Jacobian whatever the pool (one worker handles all columns in one task, three workers a few each)
                for pool in [&*POOL1, &*POOL3] {
                    let pc = subject.clone_box();
                    let o = pool.install(move || observe(pc.as_ref()));
                    self.heavy(&o, ai);
                }
                self.ctx.with(|s| s.inc("jacobian_checked_in_small_pools"));
            }
            if self.sc.par && (self.prop == "C10" || self.prop == "C11") {
                // the observable state of a parallel problem must not depend on the worker pool it is queried in
                for (name, pool) in [("1 worker", &*POOL1), ("3 workers", &*POOL3)] {
                    let pc = subject.clone_box();
                    let o = pool.install(move || observe(pc.as_ref()));
                    if o != o1 {
                        let what = if o.jac != o1.jac { "jacobian" } else if o.res != o1.res { "residuals" } else { "coefficients" };
                        let p = self.prop.to_string();
                        self.violate(&p, "depends-on-worker-pool", format!("{} queried inside a pool of {} differ from the same query in the global pool (alphabet entry {})", what, name, ai));
                    }
                }
                self.ctx.with(|s| s.inc("pool_independence_checked_states"));
            }
            if self.prop == "C10" {
                // every element is a computed value: the observation must not depend on what fresh heap memory contains
                let mut first: Option<Obs<T>> = None;
                for b in [0x00u8, 0xFF, 0x55, 0x7F] {
                    vpmc::poison::set_poison(Some(b));
                    let o = observe(subject);
                    let fresh_b = observe(build_role(&self.env, self.sc, &Role::Subject, &self.alphas_t[ai]).as_ref());
                    vpmc::poison::set_poison(Some(0xFF));
                    if fresh_b != o {
                        self.violate("C10", "heap-dependent-values", format!("with fresh allocations filled with 0x{:02x} the problem after history {:?} and a fresh problem report different values", b, self.hist));
                    }
                    match &first {
                        None => first = Some(o),
                        Some(f0) => {
                            if *f0 != o {
                                let what = if f0.jac != o.jac { "jacobian" } else if f0.res != o.res { "residuals" } else { "coefficients" };
                                self.violate("C10", "heap-dependent-values", format!("{} change when fresh allocations are filled with 0x{:02x} instead of 0x00: some element is not a computed value", what, b));
                            }
                        }
                    }
                }
                self.ctx.with(|s| s.inc("poison_independence_checked_states"));
            }
        }
        // lock-step twins
        for ri in 1..node.len() {
            let role = self.roles[ri].clone();
            let ot = observe(node[ri].as_ref());
            self.compare_twin(&role, &o1, &ot, ai);
        }
    }

    fn heavy(&mut self, o: &Obs<T>, ai: usize) {
        let prop = self.prop.to_string();
        let alpha = self.alphas_t[ai].clone();
        let spec = self.env.spec.clone();
        let mut findings = vec![];
        let mut gauges: Gauges = vec![];
        let class;
        {
            let r = self.reference_for(ai);
            class = r.class;
            if r.class == RankClass::NonFinite {
                if o.res.is_some() {
                    findings.push(Finding { property: "C08", signature: "present-with-nonfinite-basis".into(), detail: "basis matrix is non-finite but residuals are exposed".into() });
                    let pp: &'static str = match prop.as_str() {
                        "C01" => "C01",
                        "C02" => "C02",
                        "C03" => "C03",
                        _ => "C10",
                    };
                    findings.push(Finding { property: pp, signature: "values-not-for-current-parameters".into(), detail: "the model is non-finite at the parameters the problem reports, yet residuals/coefficients are exposed: they cannot belong to these parameters".into() });
                }
            } else {
                match prop.as_str() {
                    "C01" => check_c01::<T>(r, o, &mut findings, &mut gauges),
                    "C02" => check_c02_residuals::<T>(r, o, &mut findings, &mut gauges),
                    "C03" => check_c03::<T>(&spec, &alpha, r, o, &mut findings, &mut gauges),
                    _ => {}
                }
            }
        }
        if prop == "C01" && class != RankClass::NonFinite {
            self.linearity(o, ai, &mut findings, &mut gauges);
        }
        if prop == "C03" && !self.sc.f32_ && class == RankClass::Full && self.sc.domain.is_none() {
            self.gradient_fd(o, ai, &mut findings, &mut gauges);
        }
        let c = self.case();
        self.ctx.with(|s| {
            s.bucket("rank_class", &format!("{:?}", class));
            s.inc("heavy_oracle_states");
            if class == RankClass::Full || class == RankClass::Truncated {
                s.inc("distinct_nontrivial");
            }
            for (n, v) in gauges {
                s.max(n, v);
            }
            for f in findings {
                s.violate(f.property, &f.signature, c.clone(), f.detail);
            }
        });
    }

    /// C01: coefficients depend linearly on the observations (columns a, b, a+b, 3a of one problem)
    fn linearity(&mut self, o: &Obs<T>, ai: usize, out: &mut Vec<Finding>, g: &mut Gauges) {
        let pos = |k: &YCol| self.sc.ycols.iter().position(|x| x == k);
        let Some(c) = o.coef_f64() else { return };
        let r = &self.refs[&ai];
        if r.class == RankClass::Ambiguous || !refla::all_finite(&c) {
            return;
        }
        let k = 1024.0 * T::EPS * r.kappa_kept * r.kappa_kept.max(1.0);
        if k > 1e-2 {
            return;
        }
        let ynorm = refla::fro(&r.yw) / r.smax.max(1e-300);
        if let (Some(a), Some(b), Some(ab)) = (pos(&YCol::OnModel), pos(&YCol::Off), pos(&YCol::OnPlusOff)) {
            let d = (&c.column(ab) - &c.column(a) - &c.column(b)).norm();
            let tol = k * (c.column(a).norm() + c.column(b).norm() + ynorm);
            g.push(("C01_linearity_sum", d / tol.max(1e-300)));
            if !(d <= tol) {
                out.push(Finding { property: "C01", signature: "not-linear-in-observations".into(), detail: format!("c(y_a + y_b) - c(y_a) - c(y_b) = {:e} > {:e}", d, tol) });
            }
        }
        if let (Some(a), Some(a3)) = (pos(&YCol::OnModel), pos(&YCol::ThreeOn)) {
            let d = (&c.column(a3) - &c.column(a) * 3.0).norm();
            let tol = k * (3.0 * c.column(a).norm() + ynorm);
            g.push(("C01_linearity_scale", d / tol.max(1e-300)));
            if !(d <= tol) {
                out.push(Finding { property: "C01", signature: "not-linear-in-observations".into(), detail: format!("c(3 y_a) - 3 c(y_a) = {:e} > {:e}", d, tol) });
            }
        }
    }

    /// C03: 2 J^T r equals the central finite difference of ||r(alpha)||^2 (fresh problems at alpha +- h e_k)
    fn gradient_fd(&mut self, o: &Obs<T>, ai: usize, out: &mut Vec<Finding>, g: &mut Gauges) {
        let (Some(j), Some(r)) = (o.jac_f64(), o.res_f64()) else { return };
        let rn = r.norm();
        if rn == 0.0 {
            return;
        }
        let kappa = self.refs[&ai].kappa_kept;
        if kappa > 1e4 {
            return;
        }
        let a = self.alphas_t[ai].clone();
        for k in 0..a.len() {
            // step relative to the parameter, with the scale of this parameter in the scenario's alphabet as the floor
            // (an absolute floor would be meaningless for decay constants of order 1e-17)
            let scale_k = self.sc.alphas.iter().map(|al| al[k].abs()).fold(0.0f64, f64::max);
            let h = 1e-5 * a[k].d().abs().max(if scale_k > 0.0 { scale_k.min(1.0) } else { 1.0 });
            let mut obj = [0.0f64; 2];
            for (t, sgn) in [(0usize, 1.0), (1, -1.0)] {
                let mut ap = a.clone();
                ap[k] = T::f(a[k].d() + sgn * h);
                let p = build_role(&self.env, self.sc, &Role::Subject, &ap);
                let Some(rr) = p.residuals() else { return };
                obj[t] = vec_d(&rr).norm_squared();
            }
            let fd = (obj[0] - obj[1]) / (2.0 * h);
            let an = 2.0 * j.column(k).dot(&r);
            let tol = 1e-5 * (j.column(k).norm() * rn).max(1e-12) * kappa.max(1.0) + 1e-9 * rn * rn / h;
            g.push(("C03_gradient_fd", (fd - an).abs() / tol));
            if !((fd - an).abs() <= tol) {
                out.push(Finding { property: "C03", signature: "gradient-mismatch".into(), detail: format!("parameter {}: 2 J^T r = {:e}, central difference of ||r||^2 = {:e} (tolerance {:e})", k, an, fd, tol) });
                return;
            }
        }
        self.ctx.with(|s| s.inc("gradient_fd_states"));
    }

    fn tolerance_for(&mut self, ai: usize) -> Option<(f64, f64)> {
        let r = self.reference_for(ai);
        if r.class == RankClass::Ambiguous || r.class == RankClass::NonFinite {
            return None;
        }
        Some((1024.0 * T::EPS * r.kappa_kept * r.kappa_kept.max(1.0), r.smax))
    }

    fn compare_twin(&mut self, role: &Role, s: &Obs<T>, t: &Obs<T>, ai: usize) {
        let n = self.sc.n;
        let ncol = self.sc.ycols.len();
        let prop = self.prop.to_string();
        match role {
            Role::OtherFlavour | Role::Converted | Role::Unweighted | Role::Reweighted => {
                // identities of deterministic computations: bitwise
                if s != t {
                    let what = if s.res != t.res { "residuals" } else if s.coef != t.coef { "coefficients" } else if s.jac != t.jac { "jacobian" } else { "params" };
                    let (p, sig) = match role {
                        Role::OtherFlavour => ("C11", "parallel-differs-from-sequential"),
                        Role::Converted => ("C11", "converted-problem-differs"),
                        Role::Reweighted => (if prop == "C02" { "C02" } else if prop == "C01" { "C01" } else { "C06" }, "weights-applied-more-than-once"),
                        _ => ("C06", "unit-weights-differ-from-no-weights"),
                    };
                    self.violate(p, sig, format!("{} differ bitwise between the two problems at alphabet entry {}", what, ai));
                } else {
                    self.bitwise_equal_twins += 1;
                }
            }
            Role::RowScaled | Role::AbsWeights(_) | Role::RowDeleted(_) | Role::SingleCol(_) | Role::SingleColOther(_) => {
                if s.present() != t.present() {
                    self.violate(&prop, "twin-presence-differs", format!("{:?}: one problem exposes values, the other does not", role));
                    return;
                }
                if !s.present() {
                    return;
                }
                let Some((rel, _smax)) = self.tolerance_for(ai) else { return };
                if rel > 1e-2 {
                    self.ctx.with(|st| st.inc("twin_comparisons_skipped_ill_conditioned"));
                    return;
                }
                let (sc_, sr, sj) = (s.coef_f64().unwrap(), s.res_f64().unwrap(), s.jac_f64());
                let (tc, tr, tj) = (t.coef_f64().unwrap(), t.res_f64().unwrap(), t.jac_f64());
                let bitwise = std::cell::Cell::new(true);
                let fail: std::cell::RefCell<Option<String>> = std::cell::RefCell::new(None);
                let cmp = |name: &str, a: f64, b: f64, scale: f64| {
                    if a.to_bits() != b.to_bits() {
                        bitwise.set(false);
                    }
                    if !((a - b).abs() <= rel * scale + 1e-300) && fail.borrow().is_none() {
                        *fail.borrow_mut() = Some(format!("{}: {:e} vs {:e} (tolerance {:e})", name, a, b, rel * scale));
                    }
                };
                let cscale = refla::maxabs(&sc_).max(refla::maxabs(&tc));
                let rscale = refla::vmaxabs(&sr).max(refla::vmaxabs(&tr)).max(cscale * 1e-3);
                let jscale = sj.as_ref().map(|j| refla::maxabs(j)).unwrap_or(0.0).max(tj.as_ref().map(|j| refla::maxabs(j)).unwrap_or(0.0));
                match role {
                    Role::RowScaled | Role::AbsWeights(_) => {
                        let flip = if let Role::AbsWeights(i) = role { Some(*i) } else { None };
                        for (a, b) in sc_.iter().zip(tc.iter()) {
                            cmp("coefficient", *a, *b, cscale);
                        }
                        for idx in 0..sr.len() {
                            let sign = if flip == Some(idx % n) { -1.0 } else { 1.0 };
                            cmp("residual", sr[idx], sign * tr[idx], rscale);
                        }
                        if let (Some(sj), Some(tj)) = (&sj, &tj) {
                            for k in 0..sj.ncols() {
                                for idx in 0..sj.nrows() {
                                    let sign = if flip == Some(idx % n) { -1.0 } else { 1.0 };
                                    cmp("jacobian", sj[(idx, k)], sign * tj[(idx, k)], jscale);
                                }
                            }
                        } else if sj.is_some() != tj.is_some() {
                            *fail.borrow_mut() = Some("jacobian present in only one problem".into());
                        }
                    }
                    Role::RowDeleted(del) => {
                        for (a, b) in sc_.iter().zip(tc.iter()) {
                            cmp("coefficient", *a, *b, cscale);
                        }
                        let keep: Vec<usize> = (0..n).filter(|r| r != del).collect();
                        for c in 0..ncol {
                            for (ri, &r0) in keep.iter().enumerate() {
                                cmp("residual", sr[c * n + r0], tr[c * (n - 1) + ri], rscale);
                            }
                            // the zero-weight sample contributes nothing
                            if sr[c * n + del] != 0.0 {
                                *fail.borrow_mut() = Some(format!("residual of the zero-weight sample is {:e}, not 0", sr[c * n + del]));
                            }
                        }
                        if let (Some(sj), Some(tj)) = (&sj, &tj) {
                            for k in 0..sj.ncols() {
                                for c in 0..ncol {
                                    for (ri, &r0) in keep.iter().enumerate() {
                                        cmp("jacobian", sj[(c * n + r0, k)], tj[(c * (n - 1) + ri, k)], jscale);
                                    }
                                    cmp("jacobian row of the zero-weight sample", sj[(c * n + del, k)], 0.0, jscale);
                                }
                            }
                        }
                    }
                    Role::SingleCol(col) | Role::SingleColOther(col) => {
                        // scales of THIS column only: the columns are independent problems, however different their magnitudes
                        let m = sc_.nrows();
                        let cs = (0..m).map(|j| sc_[(j, *col)].abs().max(tc[(j, 0)].abs())).fold(0.0f64, f64::max);
                        let rs = (0..n).map(|i| sr[col * n + i].abs().max(tr[i].abs())).fold(0.0f64, f64::max).max(cs * 1e-3);
                        for j in 0..m {
                            cmp("coefficient", sc_[(j, *col)], tc[(j, 0)], cs);
                        }
                        for i in 0..n {
                            cmp("residual block", sr[col * n + i], tr[i], rs);
                        }
                        if let (Some(sj), Some(tj)) = (&sj, &tj) {
                            let js = (0..sj.ncols()).flat_map(|k| (0..n).map(move |i| (i, k))).map(|(i, k)| sj[(col * n + i, k)].abs().max(tj[(i, k)].abs())).fold(0.0f64, f64::max);
                            for k in 0..sj.ncols() {
                                for i in 0..n {
                                    cmp("jacobian block", sj[(col * n + i, k)], tj[(i, k)], js);
                                }
                            }
                        } else if sj.is_some() != tj.is_some() {
                            *fail.borrow_mut() = Some("jacobian present in only one problem".into());
                        }
                    }
                    _ => unreachable!(),
                }
                if bitwise.get() {
                    self.bitwise_equal_twins += 1;
                } else {
                    self.tolerance_twins += 1;
                }
                if let Some(msg) = fail.into_inner() {
                    let sig = match role {
                        Role::RowScaled => "weighted-differs-from-row-scaled",
                        Role::AbsWeights(_) => "negative-weight-not-a-sign-flip",
                        Role::RowDeleted(_) => "zero-weight-sample-has-influence",
                        Role::SingleCol(_) | Role::SingleColOther(_) => "mrhs-block-differs-from-single-rhs",
                        _ => unreachable!(),
                    };
                    self.violate(&prop, sig, format!("{:?} at alphabet entry {}: {}", role, ai, msg));
                }
            }
            Role::Subject => {}
        }
    }

    fn dfs(&mut self, node: &[Box<dyn Prob<T>>], depth: usize) {
        if depth == self.sc.depth {
            return;
        }
        let prev_params: Vec<u64> = node[0].params().iter().map(|v| v.bits()).collect();
        for ai in 0..self.alphas_t.len() {
            if let Some(p) = &self.only_path {
                let on = |q: &Vec<usize>| depth < q.len() && q[depth] == ai && q[..depth] == self.hist[..];
                if !(on(p) || self.companion_path.as_ref().map(|q| on(q)).unwrap_or(false)) {
                    continue;
                }
            }
            let a = DVector::from_vec(self.alphas_t[ai].clone());
            let mut child: Vec<Box<dyn Prob<T>>> = if self.sc.prov == Prov::Built {
                // a builder-made model cannot be copied (copying rebuilds it, which would forget whatever the model remembers):
                // the child is reached by re-executing the whole history, queries included, on freshly built problems
                let a0 = self.alphas_t[0].clone();
                let mut fresh: Vec<Box<dyn Prob<T>>> = self.roles.clone().iter().map(|r| build_role(&self.env, self.sc, r, &a0)).collect();
                for &hi in &self.hist {
                    for p in fresh.iter() {
                        let _ = observe(p.as_ref());
                    }
                    let ah = DVector::from_vec(self.alphas_t[hi].clone());
                    for p in fresh.iter_mut() {
                        p.set(&ah);
                    }
                }
                for p in fresh.iter() {
                    let _ = observe(p.as_ref());
                }
                fresh
            } else {
                node.iter().map(|p| p.clone_box()).collect()
            };
            for p in child.iter_mut() {
                p.set(&a);
            }
            self.transitions += 1;
            self.ctx.tick();
            self.hist.push(ai);
            self.check_state(&child, ai, Some(prev_params.clone()));
            self.dfs(&child, depth + 1);
            self.hist.pop();
        }
    }

    fn run(&mut self) {
        // weighted data are W*Y for the observations exactly as supplied (C02), checked once per scenario
        let a0 = self.alphas_t[0].clone();
        let root: Vec<Box<dyn Prob<T>>> = self.roles.clone().iter().map(|r| build_role(&self.env, self.sc, r, &a0)).collect();
        if self.prop == "C02" || self.prop == "C06" {
            let wd = root[0].wdata();
            let mut bad = None;
            for c in 0..self.env.y.ncols() {
                for i in 0..self.sc.n {
                    let expect = match &self.env.w {
                        Some(w) => w[i] * self.env.y[(i, c)],
                        None => self.env.y[(i, c)],
                    };
                    let got = wd[(i, c)];
                    let ok = got.bits() == expect.bits() || (got.d() - expect.d()).abs() <= T::EPS * expect.d().abs();
                    if !ok && bad.is_none() {
                        bad = Some(format!("weighted_data[{},{}] = {:e}, w*y = {:e}", i, c, got.d(), expect.d()));
                    }
                }
            }
            if let Some(msg) = bad {
                self.violate(if self.prop == "C06" { "C06" } else { "C02" }, "weighted-data-not-W*Y", msg);
            }
        }
        self.transitions += 1; // construction = one update at the model's parameters
        self.check_state(&root, 0, None);
        self.dfs(&root, 0);
        // beyond the depth bound: a few LONG deterministic walks (count-dependent effects such as a cache that
        // is refreshed only every k-th update): the whole alphabet cyclically x3, every entry repeated 4 times,
        // and a ping-pong between the first and every other entry
        if let Some(p) = self.only_path.clone() {
            // replay of a history longer than the depth bound (found by a long walk): the companion history first, then the
            // history itself, each as a walk from the root with the checks of every step
            let depth = self.sc.depth;
            for w in [self.companion_path.clone(), Some(p)].into_iter().flatten() {
                if w.len() <= depth {
                    continue;
                }
                let mut node: Vec<Box<dyn Prob<T>>> = root.iter().map(|p| p.clone_box()).collect();
                self.hist.clear();
                for &ai in &w {
                    let prev: Vec<u64> = node[0].params().iter().map(|v| v.bits()).collect();
                    let a = DVector::from_vec(self.alphas_t[ai].clone());
                    for p in node.iter_mut() {
                        p.set(&a);
                    }
                    self.hist.push(ai);
                    self.check_state(&node, ai, Some(prev));
                }
                self.hist.clear();
            }
        }
        if self.only_path.is_none() {
            let n = self.alphas_t.len();
            let mut walks: Vec<Vec<usize>> = vec![];
            walks.push((0..3 * n).map(|i| i % n).collect());
            walks.push((0..4 * n).map(|i| i / 4).collect());
            walks.push((0..2 * n).map(|i| if i % 2 == 0 { 0 } else { (i / 2) % n }).collect());
            if self.ctx.args.thorough() && self.sc_index % 64 == 0 {
                // more updates than any fit can make (patience 100 x (P+1)): 1200 steps of a fixed pseudo-random walk
                let mut x = 12345u64;
                walks.push((0..1200).map(|_| { x = x.wrapping_mul(6364136223846793005).wrapping_add(1442695040888963407); ((x >> 33) as usize) % n }).collect());
            }
            for w in walks {
                let mut node: Vec<Box<dyn Prob<T>>> = root.iter().map(|p| p.clone_box()).collect();
                self.hist.clear();
                for &ai in &w {
                    let prev: Vec<u64> = node[0].params().iter().map(|v| v.bits()).collect();
                    let a = DVector::from_vec(self.alphas_t[ai].clone());
                    for p in node.iter_mut() {
                        p.set(&a);
                    }
                    self.transitions += 1;
                    self.hist.push(ai);
                    self.check_state(&node, ai, Some(prev));
                }
                self.hist.clear();
                self.long_walk_steps += w.len() as u64;
            }
        }
        let (t, k, be, tt, lw) = (self.transitions, self.keys.len() as u64, self.bitwise_equal_twins, self.tolerance_twins, self.long_walk_steps);
        let nalpha = self.alphas_t.len() as u64;
        self.ctx.with(|s| {
            s.add("transitions", t);
            s.add("evaluations", t);
            s.add("states", k);
            s.add("traces_validated", t);
            s.add("alphabet_entries", nalpha);
            s.add("twin_comparisons_bitwise_equal", be);
            s.add("twin_comparisons_within_tolerance", tt);
            s.add("long_walk_steps", lw);
            s.inc("scenarios");
        });
    }
}

thread_local! {
    /// replay only: the history a violating history was compared with
    static COMPANION: std::cell::RefCell<Option<Vec<usize>>> = std::cell::RefCell::new(None);
}

fn explore<T: Sc>(ctx: &Ctx, sc: &Scen, sc_index: usize, prop: &str, only_path: Option<Vec<usize>>) {
    let env = Env::<T>::new(sc);
    let alphas_t: Vec<Vec<T>> = sc.alphas.iter().map(|a| a.iter().map(|&v| T::f(v)).collect()).collect();
    let failing: Vec<bool> = sc.alphas.iter().map(|a| a.len() != sc.fam.p() || matches!(sc.domain, Some((_, idx, thr)) if !(a[idx] > thr)) || (matches!(sc.fam, Family::GuardExp) && !(a[0] > 0.0))).collect();
    let mut ex = Explorer {
        ctx,
        sc,
        sc_index,
        prop,
        env,
        roles: roles_for(sc, prop),
        alphas_t,
        failing,
        seen: Default::default(),
        refs: Default::default(),
        keys: Default::default(),
        hist: vec![],
        transitions: 0,
        bitwise_equal_twins: 0,
        tolerance_twins: 0,
        only_path,
        companion_path: None,
        compared_with: None,
        long_walk_steps: 0,
    };
    ex.companion_path = COMPANION.with(|c| c.borrow().clone());
    if ex.failing[0] && !matches!(sc.fam, Family::GuardExp) {
        return; // the initial guess must be accepted (except for the family whose point is a failing first evaluation)
    }
    let r = guarded(|| ex.run());
    if let Err(msg) = r {
        let c = json!({"tier": ctx.args.tier, "scenario_index": sc_index, "scenario": scen_desc(sc), "history": []});
        if ctx.args.property == "C06" && msg.starts_with("scenario builds") {
            // the weighted subject is rejected by build(): a violation of C06 when its row-scaled / unweighted twin is built
            let twin_role = if ex.roles.contains(&Role::RowScaled) { Role::RowScaled } else { Role::Unweighted };
            let a0 = ex.alphas_t[0].clone();
            if ex.env.w.is_some() && guarded(|| build_role(&ex.env, sc, &twin_role, &a0)).is_ok() {
                ctx.with(|s| s.violate("C06", "weighted-rejected-while-twin-builds", c.clone(), format!("the weighted problem is rejected ({}), the {:?} twin is built", msg, twin_role)));
                return;
            }
        }
        ctx.with(|s| {
            s.violate("C08", "panic:probstate", c.clone(), format!("panicked while exploring: {}", msg));
            s.inc("blocked_cases");
        });
    }
}

// ------------------------------------------------------------------------------------------------
// scenario lists

fn polymat_diag(d2: f64) -> Family {
    // Phi(a) = a * [[1,0],[0,d2],[0,0]]
    Family::PolyMat(Arc::new(PolySpec { n: 3, m: 2, p: 1, a0: vec![0.0; 6], a: vec![vec![1.0, 0.0, 0.0, d2, 0.0, 0.0]], b: vec![vec![0.0; 6]] }))
}

fn polymat_diag_rev(d2: f64) -> Family {
    // Phi(a) = a * [[d2,0],[0,1],[0,0]] : the small (or zero) singular value belongs to the FIRST basis function
    Family::PolyMat(Arc::new(PolySpec { n: 3, m: 2, p: 1, a0: vec![0.0; 6], a: vec![vec![d2, 0.0, 0.0, 1.0, 0.0, 0.0]], b: vec![vec![0.0; 6]] }))
}
fn polymat_three(d: [f64; 3]) -> Family {
    // 4 x 3, exactly diagonal with the given entries (any order of magnitudes)
    Family::PolyMat(Arc::new(PolySpec { n: 4, m: 3, p: 1, a0: vec![0.0; 12], a: vec![vec![d[0], 0.0, 0.0, 0.0, d[1], 0.0, 0.0, 0.0, d[2], 0.0, 0.0, 0.0]], b: vec![vec![0.0; 12]] }))
}

fn base_families() -> Vec<(Family, usize)> {
    vec![
        (Family::Exp1Off, 7),
        (Family::Exp2Off, 9),
        (Family::Exp3, 10),
        (Family::GaussDecayOff, 11),
        (Family::OLeary, 8),
        (Family::Perm4, 10),
        (Family::XExpSin, 9),
        (Family::GenProd { m: 2, p: 2, inc: default_inc(2, 2) }, 8),
        (Family::GenProd { m: 3, p: 2, inc: [[true, true, false], [false, true, false], [false, false, false]] }, 9),
        // parameter 0 is shared by the first and the LAST function, the one in between does not depend on it
        (Family::GenProd { m: 3, p: 2, inc: [[true, false, false], [false, true, false], [true, true, false]] }, 9),
    ]
}

fn scenarios(prop: &str, thorough: bool) -> Vec<Scen> {
    let mut v: Vec<Scen> = vec![];
    let depth = match (prop, thorough) {
        ("C10", true) => 4,
        ("C10", false) => 3,
        (_, true) => 3,
        (_, false) => 2,
    };
    let provs = [Prov::Hand, Prov::Built];
    let mk = |fam: &Family, n: usize, prov: Prov, f32_: bool, par: bool, api: Api, ycols: Vec<YCol>, w: WKind, eps: EpsKind| Scen {
        fam: fam.clone(),
        n,
        prov,
        f32_,
        par,
        api,
        ycols,
        w,
        eps,
        alphas: alphabet(fam, thorough && prop != "C07" && prop != "C10"),
        domain: None,
        exact: false,
        depth,
        xshift: 0.0,
        xscale: 1.0,
    };
    let lin_cols = vec![YCol::OnModel, YCol::Off, YCol::OnPlusOff, YCol::ThreeOn];
    match prop {
        "C01" | "C02" | "C03" | "C11" | "C10" => {
            let weights: Vec<WKind> = if thorough { vec![WKind::None, WKind::Ramp, WKind::Spread, WKind::ZeroAt(2), WKind::NegAt(1), WKind::Tiny, WKind::Huge] } else { vec![WKind::None, WKind::Ramp, WKind::NegAt(1), WKind::Huge] };
            let epss = [EpsKind::Default, EpsKind::Val(1e-8), EpsKind::Val(-1e-8), EpsKind::Val(1e-2)];
            for (fi, (fam, n)) in base_families().iter().enumerate() {
                for prov in provs {
                    if prov == Prov::Built && !fam.can_build() {
                        continue;
                    }
                    for f32_ in [false, true] {
                        for par in [false, true] {
                            if prop == "C11" && !par {
                                continue;
                            }
                            // (an identically zero right-hand side - alone, and in the middle of others - has the exact solution 0)
                            for (api, ycols) in [(Api::Single, vec![YCol::Noisy]), (Api::Single, vec![YCol::Off]), (Api::Mrhs, lin_cols.clone()), (Api::Mrhs, vec![YCol::Noisy]), (Api::Single, vec![YCol::Zero]), (Api::Mrhs, vec![YCol::Noisy, YCol::Zero, YCol::Off])] {
                                if ycols.contains(&YCol::Zero) && fi > 1 {
                                    continue;
                                }
                                for w in &weights {
                                    for eps in epss {
                                        if !thorough {
                                            // quick: a covering slice of the product
                                            let h = fi + (prov == Prov::Built) as usize + 2 * f32_ as usize + par as usize;
                                            if (h + ycols.len()) % 2 == 1 && !(ycols.len() == 4 && *w != WKind::None) {
                                                continue;
                                            }
                                            if matches!(eps, EpsKind::Val(x) if x < 0.0) && fi != 1 {
                                                continue;
                                            }
                                        }
                                        v.push(mk(fam, *n, prov, f32_, par, api, ycols.clone(), *w, eps));
                                    }
                                }
                            }
                        }
                    }
                }
            }
            // beyond the small scope: 4 and 5 basis functions / parameters, and sample counts around block sizes
            for (fam, n) in [(Family::ExpN(4), 12usize), (Family::ExpN(5), 14), (Family::Exp2Off, 64), (Family::Exp2Off, 257), (Family::OLeary, 600), (Family::Exp1Off, 1025), (Family::Exp2Off, 4100), (Family::Exp1Off, 8200)] {
                for par in [false, true] {
                    if prop == "C11" && !par {
                        continue;
                    }
                    for f32_ in [false, true] {
                        if f32_ && matches!(fam, Family::ExpN(_)) {
                            continue;
                        }
                        // quick: the sizes past 4096 only for the parallel f64 problems
                        if !thorough && ((n > 300 && n < 4000) || (n > 4000 && (!par || f32_ || n > 5000)) || (par && f32_)) {
                            continue;
                        }
                        for (api, ycols) in [(Api::Single, vec![YCol::Noisy]), (Api::Mrhs, vec![YCol::Noisy, YCol::Off])] {
                            let mut s = mk(&fam, n, if matches!(fam, Family::ExpN(_)) || n > 300 { Prov::Hand } else { Prov::Built }, f32_, par, api, ycols, if n % 2 == 0 { WKind::Ramp } else { WKind::None }, EpsKind::Default);
                            s.alphas.truncate(4);
                            s.depth = 2;
                            v.push(s);
                        }
                    }
                }
            }
            // absolute scale of the parameters: decay constants (and sample locations) of order 1e-17 / 1e17 (f64), 1e-9 / 1e9 (f32) -
            // every step between alphabet entries is far below (above) any absolute tolerance on parameter changes
            for (fam, n) in [(Family::Exp1Off, 7usize), (Family::Exp2Off, 9)] {
                for f32_ in [false, true] {
                    for par in [false, true] {
                        if prop == "C11" && !par {
                            continue;
                        }
                        for scale in if f32_ { [1e-9, 1e9] } else { [1e-17, 1e17] } {
                            for (api, ycols) in [(Api::Single, vec![YCol::Noisy]), (Api::Mrhs, vec![YCol::Noisy, YCol::Off])] {
                                if !thorough && (par != (api == Api::Mrhs)) {
                                    continue;
                                }
                                let mut s = mk(&fam, n, if par { Prov::Hand } else { Prov::Built }, f32_, par, api, ycols, if par { WKind::Ramp } else { WKind::None }, EpsKind::Default);
                                s.alphas = s.alphas.iter().filter(|a| a.iter().all(|t| *t > 0.01)).map(|a| a.iter().map(|t| t * scale).collect()).collect();
                                s.xscale = scale;
                                v.push(s);
                            }
                        }
                    }
                }
            }
            // many right-hand sides (past any block size of a column-blocked implementation; 11 and 70 are not multiples of 8 / 64)
            for (fam, n) in [(Family::Exp2Off, 9usize), (Family::OLeary, 8)] {
                for par in [false, true] {
                    if prop == "C11" && !par {
                        continue;
                    }
                    for f32_ in [false, true] {
                        for ncols in [11usize, 70] {
                            if !thorough && (f32_ || (ncols == 70) != par) {
                                continue;
                            }
                            let pool = [YCol::Noisy, YCol::Off, YCol::OnModel, YCol::OnPlusOff, YCol::Zero];
                            let ycols: Vec<YCol> = (0..ncols).map(|i| pool[(i * 3) % 5].clone()).collect();
                            let mut s = mk(&fam, n, if par { Prov::Hand } else { Prov::Built }, f32_, par, Api::Mrhs, ycols, if ncols == 11 { WKind::Ramp } else { WKind::None }, EpsKind::Default);
                            s.alphas.truncate(4);
                            s.depth = 2;
                            v.push(s);
                        }
                    }
                }
            }
            // many basis functions (the decomposition needs many sweeps): 16 and 24 decays
            for (fam, n) in [(Family::ExpN(16), 40usize), (Family::ExpN(24), 60)] {
                for par in [false, true] {
                    if prop == "C11" && !par {
                        continue;
                    }
                    if !thorough && !par && fam.m() > 16 {
                        continue;
                    }
                    let mut s = mk(&fam, n, Prov::Hand, false, par, Api::Single, vec![YCol::Noisy], WKind::None, EpsKind::Default);
                    s.alphas.truncate(3);
                    s.depth = 2;
                    v.push(s);
                }
            }
            // a FINITE basis matrix whose decomposition yields non-finite singular values in f32 (entries from 1e-13 to 4e24: the
            // state the optimizer reached in the second C08 defect), visited between ordinary states
            for par in [false, true] {
                if prop == "C11" && !par {
                    continue;
                }
                for (api, ycols) in [(Api::Single, vec![YCol::Noisy]), (Api::Mrhs, vec![YCol::Noisy, YCol::Off])] {
                    let mut s = mk(&Family::ExpN(4), 8, Prov::Hand, true, par, api, ycols, WKind::None, EpsKind::Default);
                    s.alphas = vec![vec![0.52, 1.35, 3.5, 9.0], vec![0.4652356, 1.0640211, -0.105895996, 0.20005608], vec![0.5, 1.25, 3.125, 7.8125], vec![0.46, 1.06, -0.1059, 0.2]];
                    v.push(s);
                }
            }
            // the state right after build() is the delicate one: (nearly) equal decay constants under a user threshold come FIRST
            for f32_ in [false, true] {
                for par in [false, true] {
                    if prop == "C11" && !par {
                        continue;
                    }
                    for prov in provs {
                        for eps in [EpsKind::Val(1e-3), EpsKind::Val(-1e-2), EpsKind::Default] {
                            for (api, ycols) in [(Api::Single, vec![YCol::Noisy]), (Api::Mrhs, vec![YCol::Noisy, YCol::Off])] {
                                if !thorough && ((prov == Prov::Built) != par || (f32_ && api == Api::Mrhs)) {
                                    continue;
                                }
                                for first in [vec![2.0, 2.000001], vec![2.0, 2.0]] {
                                    let mut s = mk(&Family::Exp2Off, 9, prov, f32_, par, api, ycols.clone(), WKind::None, eps);
                                    s.alphas = vec![first.clone(), vec![1.0, 3.5], vec![0.75, 3.0], vec![2.0, 2.0], vec![2.0, 2.000001]];
                                    v.push(s);
                                }
                            }
                        }
                    }
                }
            }
            // crafted singular values: configured threshold, its absolute value, absolute (not relative) meaning
            for f32_ in [false, true] {
                for par in [false, true] {
                    if prop == "C11" && !par {
                        continue;
                    }
                    for eps in [EpsKind::Val(1e-2), EpsKind::Val(-1e-2), EpsKind::Val(1e-3), EpsKind::Val(1e-7), EpsKind::Val(-1e-7)] {
                        for w in [WKind::None, WKind::Dyadic] {
                            for (api, ycols) in [(Api::Single, vec![YCol::Custom(vec![2.0, 3e-5, 0.5])]), (Api::Mrhs, vec![YCol::Custom(vec![2.0, 3e-5, 0.5]), YCol::Custom(vec![-1.0, 1e-5, 4.0])])] {
                                let mut s = mk(&polymat_diag(1e-5), 3, Prov::Hand, f32_, par, api, ycols, w, eps);
                                s.exact = true;
                                v.push(s);
                            }
                        }
                    }
                    // the small / vanishing singular value in every position of the decomposition's output
                    for (fam, n, ycol) in [
                        (polymat_diag_rev(1e-5), 3usize, vec![3e-5, 2.0, 0.5]),
                        (polymat_diag_rev(0.0), 3, vec![1.0, 2.0, 0.5]),
                        (polymat_three([0.25, 4.0, 1.0]), 4, vec![1.0, 8.0, 3.0, 0.5]),
                        (polymat_three([4.0, 0.25, 1.0]), 4, vec![8.0, 1.0, 3.0, 0.5]),
                        (polymat_three([1.0, 4.0, 0.25]), 4, vec![3.0, 8.0, 1.0, 0.5]),
                        (polymat_three([0.0, 4.0, 1.0]), 4, vec![1.0, 8.0, 3.0, 0.5]),
                    ] {
                        for eps in [EpsKind::Default, EpsKind::Val(1e-2), EpsKind::Val(0.6), EpsKind::Val(-2.0)] {
                            let mut s = mk(&fam, n, Prov::Hand, f32_, par, Api::Single, vec![YCol::Custom(ycol.clone())], WKind::None, eps);
                            s.exact = true;
                            s.alphas = vec![vec![1.0], vec![1.0], vec![2.0], vec![0.5]];
                            v.push(s);
                        }
                    }
                    // default threshold is the machine epsilon of the scalar type
                    let e = if f32_ { f32::EPSILON as f64 } else { f64::EPSILON };
                    for d2 in [0.4375 * e, 4.5 * e] {
                        let mut s = mk(&polymat_diag(d2), 3, Prov::Hand, f32_, par, Api::Single, vec![YCol::Custom(vec![2.0, 3.0 * d2, 0.5])], WKind::None, EpsKind::Default);
                        s.exact = true;
                        s.alphas = vec![vec![1.0], vec![1.0], vec![2.0]];
                        v.push(s);
                    }
                }
            }
            // signed zeros are different parameter vectors: exp(-x/tau) on x > 0 is 0 for tau = +0.0 and +inf for tau = -0.0;
            // and parameter vectors closer together than a user threshold are still different parameter vectors
            for prov in provs {
                for par in [false, true] {
                    if prop == "C11" && !par {
                        continue;
                    }
                    for f32_ in [false, true] {
                        let mut s = mk(&Family::Exp1Off, 6, prov, f32_, par, Api::Single, vec![YCol::Noisy], WKind::Ramp, EpsKind::Default);
                        s.xshift = 0.5;
                        s.alphas = vec![vec![1.0], vec![1.25], vec![0.0], vec![-0.0], vec![2.0]];
                        v.push(s);
                        for (fam, n) in [(Family::Exp2Off, 9usize), (Family::OLeary, 8)] {
                            // small observations under a user threshold: |W D_k C| < threshold although W Phi is well conditioned
                            v.push(mk(&fam, n, prov, f32_, par, Api::Mrhs, vec![YCol::Small, YCol::Noisy], WKind::None, EpsKind::Val(1e-2)));
                            v.push(mk(&fam, n, prov, f32_, par, Api::Single, vec![YCol::Small], WKind::Ramp, EpsKind::Val(1e-2)));
                            let mut s = mk(&fam, n, prov, f32_, par, Api::Mrhs, vec![YCol::Noisy, YCol::Off], WKind::Ramp, EpsKind::Val(1e-2));
                            let g = s.alphas[1].clone();
                            s.alphas = vec![s.alphas[0].clone(), g.clone(), g.iter().map(|v| v + 2e-3).collect(), g.iter().map(|v| v - 4e-3).collect(), s.alphas[2].clone()];
                            v.push(s);
                        }
                    }
                }
            }
            if prop == "C10" {
                // histories that contain failing updates (model with a domain)
                let mut extra = vec![];
                for (fam, n) in [(Family::Exp1Off, 7usize), (Family::Exp2Off, 9)] {
                    for prov in provs {
                        for par in [false, true] {
                            for at in [RejectAt::Set, RejectAt::Eval] {
                                for (api, ycols) in [(Api::Single, vec![YCol::Noisy]), (Api::Mrhs, vec![YCol::Noisy, YCol::Off])] {
                                    let mut s = mk(&fam, n, prov, false, par, api, ycols, WKind::Ramp, EpsKind::Default);
                                    let mut bad = s.alphas[2].clone();
                                    bad[0] = -1.0;
                                    s.alphas.truncate(4);
                                    s.alphas.push(bad);
                                    // a vector of the wrong length (one entry too many): rejected by the model as well
                                    let mut long = s.alphas[1].clone();
                                    long.push(1.0);
                                    s.alphas.push(long);
                                    s.domain = Some((at, 0, 0.0));
                                    extra.push(s);
                                }
                            }
                        }
                    }
                }
                // the very FIRST evaluation (the one build() performs) fails - through the model builder's own output-length
                // check for builder-made models, through an error value for hand-written ones - and valid parameters follow
                for prov in provs {
                    for par in [false, true] {
                        for f32_ in [false, true] {
                            for (api, ycols) in [(Api::Single, vec![YCol::Noisy]), (Api::Mrhs, vec![YCol::Noisy, YCol::Off])] {
                                if !thorough && f32_ && api == Api::Mrhs {
                                    continue;
                                }
                                extra.push(mk(&Family::GuardExp, 7, prov, f32_, par, api, ycols, if par { WKind::Ramp } else { WKind::None }, EpsKind::Default));
                            }
                        }
                    }
                }
                v.extend(extra);
            }
            // fewer samples than basis functions (wide basis matrix: thin decompositions have N columns, not M)
            // ... and exactly as many (square basis matrix; the alphabets contain rank-deficient states, e.g. equal decay times: wave w)
            for (fam, n) in [(Family::Exp2Off, 3usize), (Family::Exp3, 3), (Family::Exp1Off, 2), (Family::Exp2Off, 2), (Family::Exp3, 2), (Family::Exp3, 1), (Family::GenProd { m: 3, p: 2, inc: [[true, true, false], [false, true, false], [false, false, false]] }, 2)] {
                for f32_ in [false, true] {
                    for par in [false, true] {
                        if prop == "C11" && !par {
                            continue;
                        }
                        for (api, ycols) in [(Api::Single, vec![YCol::Noisy]), (Api::Mrhs, vec![YCol::Noisy, YCol::Off]), (Api::Mrhs, vec![YCol::Off, YCol::Noisy, YCol::OnModel, YCol::Off])] {
                            for w in [WKind::None, WKind::Ramp] {
                                v.push(mk(&fam, n, Prov::Hand, f32_, par, api, ycols.clone(), w, EpsKind::Default));
                            }
                        }
                    }
                }
            }
            // a threshold BELOW machine epsilon is a legal configuration: singular values between it and machine epsilon are kept
            for f32_ in [false, true] {
                for par in [false, true] {
                    if prop == "C11" && !par {
                        continue;
                    }
                    for eps in [EpsKind::Val(1e-30), EpsKind::Val(0.0), EpsKind::Val(-1e-25)] {
                        for (api, ycols) in [(Api::Single, vec![YCol::Custom(vec![2.0, 3e-18, 0.5])]), (Api::Mrhs, vec![YCol::Custom(vec![2.0, 3e-18, 0.5]), YCol::Custom(vec![-1.0, 1e-18, 4.0])])] {
                            let mut s = mk(&polymat_diag(1e-18), 3, Prov::Hand, f32_, par, api, ycols, WKind::None, eps);
                            s.exact = true;
                            s.alphas = vec![vec![1.0], vec![3.0], vec![1.0], vec![0.5]];
                            v.push(s);
                        }
                    }
                }
            }
            // every entry finite, but SUMS of entries (and of squares) overflow: 8 x 2, entries +-alpha and +-alpha/2
            {
                let pat: Vec<f64> = vec![1.0, 0.5, -1.0, 0.5, 1.0, -0.5, 0.5, 1.0, 1.0, 1.0, -0.5, 1.0, 1.0, 0.5, 0.5, -1.0];
                let fam = Family::PolyMat(Arc::new(PolySpec { n: 8, m: 2, p: 1, a0: vec![0.0; 16], a: vec![pat], b: vec![vec![0.0; 16]] }));
                for f32_ in [false, true] {
                    for par in [false, true] {
                        if prop == "C11" && !par {
                            continue;
                        }
                        for (api, ycols) in [(Api::Single, vec![YCol::Custom(vec![1e30, -2e30, 0.5e30, 3e30, 1e30, 1.5e30, -1e30, 2e30])]), (Api::Mrhs, vec![YCol::Custom(vec![1e30, -2e30, 0.5e30, 3e30, 1e30, 1.5e30, -1e30, 2e30]), YCol::Custom(vec![2e30, 1e30, 1e30, -1e30, 0.0, 1e30, 3e30, 1e30])])] {
                            let mut s = mk(&fam, 8, Prov::Hand, f32_, par, api, ycols, WKind::None, EpsKind::Default);
                            // (the f64 analogue, entries of 2e307, is beyond the f64 arithmetic of the reference oracles themselves)
                            s.alphas = vec![vec![1.0], vec![1e38], vec![3.0], vec![1e38], vec![2e37]];
                            v.push(s);
                        }
                    }
                }
            }
        }
        "C06" => {
            let weights = [WKind::Ones, WKind::Threes, WKind::Dyadic, WKind::Ramp, WKind::InvSigma, WKind::Spread, WKind::ZeroAt(0), WKind::ZeroAt(3), WKind::NegAt(1), WKind::NegAt(4), WKind::Tiny, WKind::Huge, WKind::NegRamp, WKind::NegRampZeroAt(2), WKind::Astro, WKind::Mask(1), WKind::Signs];
            for (fi, (fam, n)) in base_families().iter().enumerate() {
                for prov in provs {
                    for f32_ in [false, true] {
                        for par in [false, true] {
                            for (api, ycols) in [(Api::Single, vec![YCol::Noisy]), (Api::Mrhs, vec![YCol::Noisy, YCol::Off, YCol::OnModel]), (Api::Mrhs, vec![YCol::Off, YCol::Noisy])] {
                                for w in weights {
                                    if !thorough && (fi >= 4 || (par && prov == Prov::Built) || (f32_ && fi % 2 == 1)) {
                                        continue;
                                    }
                                    v.push(mk(fam, *n, prov, f32_, par, api, ycols.clone(), w, EpsKind::Default));
                                    // the rank decision must be the same for the weighted and the row-scaled problem: user thresholds with large / tiny weights
                                    if matches!(w, WKind::Spread | WKind::Tiny | WKind::Threes) && (thorough || fi <= 1) {
                                        for e in [1e-2, 1e-8] {
                                            v.push(mk(fam, *n, prov, f32_, par, api, ycols.clone(), w, EpsKind::Val(e)));
                                        }
                                    }
                                }
                            }
                        }
                    }
                }
            }
            // sample counts past block sizes of vectorised / multithreaded row operations
            for (fam, n) in [(Family::Exp2Off, 4100usize), (Family::Exp1Off, 8200)] {
                for par in [false, true] {
                    for w in [WKind::Ramp, WKind::Spread, WKind::ZeroAt(4099), WKind::NegAt(4097)] {
                        for (api, ycols) in [(Api::Single, vec![YCol::Noisy]), (Api::Mrhs, vec![YCol::Noisy, YCol::Off])] {
                            if !thorough && (!par || n > 5000 || api == Api::Mrhs || !matches!(w, WKind::Ramp | WKind::ZeroAt(_))) {
                                continue;
                            }
                            let mut s = mk(&fam, n, Prov::Hand, false, par, api, ycols, w, EpsKind::Default);
                            s.alphas.truncate(3);
                            s.depth = 1;
                            v.push(s);
                        }
                    }
                }
            }
        }
        "C07" => {
            let pool = [YCol::OnModel, YCol::Off, YCol::Noisy, YCol::TwiceOn, YCol::DupOn, YCol::Zero];
            let mut sels: Vec<Vec<YCol>> = vec![];
            for a in 0..6 {
                sels.push(vec![pool[a].clone()]);
                for b in 0..6 {
                    sels.push(vec![pool[a].clone(), pool[b].clone()]);
                    for c in 0..6 {
                        sels.push(vec![pool[a].clone(), pool[b].clone(), pool[c].clone()]);
                    }
                }
            }
            sels.push(vec![YCol::OnModel, YCol::Off, YCol::Noisy, YCol::TwiceOn]);
            sels.push(vec![YCol::Noisy, YCol::Off, YCol::OnModel, YCol::Zero, YCol::DupOn]);
            // many right-hand sides (more than workers, more than any small-S special case): 33 and 70 columns cycling through the pool
            // column magnitudes more than the exponent range of the scalar type apart (all finite, normal numbers)
            sels.push(vec![YCol::ScaleHuge, YCol::ScaleTiny]);
            sels.push(vec![YCol::ScaleTiny, YCol::Noisy, YCol::ScaleHuge]);
            sels.push((0..33).map(|i| pool[i % 5].clone()).collect());
            sels.push((0..70).map(|i| pool[(i * 2) % 5].clone()).collect());
            // more right-hand sides than samples, a user threshold, and decay constants so close that a singular value lies
            // between machine epsilon and that threshold
            for f32_ in [false, true] {
                for par in [false, true] {
                    for ncols in [9usize, 33] {
                        let ycols: Vec<YCol> = (0..ncols).map(|i| pool[i % 5].clone()).collect();
                        let mut s = mk(&Family::Exp2Off, 6, Prov::Hand, f32_, par, Api::Mrhs, ycols, WKind::None, EpsKind::Val(if f32_ { 1e-2 } else { 1e-6 }));
                        s.alphas = vec![vec![1.0, 3.5], if f32_ { vec![1.0, 1.0001] } else { vec![1.0, 1.00000001] }, vec![2.0, 2.0], vec![0.75, 3.0]];
                        s.depth = 2;
                        v.push(s);
                    }
                }
            }
            let fams: Vec<(Family, usize)> = vec![(Family::Exp1Off, 6), (Family::Exp2Off, 8), (Family::OLeary, 7), (Family::GenProd { m: 1, p: 1, inc: default_inc(1, 1) }, 5), (Family::GenProd { m: 3, p: 2, inc: [[true, true, false], [true, false, false], [false, true, false]] }, 8)];
            for (fi, (fam, n)) in fams.iter().enumerate() {
                for (si, sel) in sels.iter().enumerate() {
                    for (wi, w) in [WKind::None, WKind::Ramp, WKind::Spread].iter().enumerate() {
                        for par in [false, true] {
                            for prov in provs {
                                for f32_ in [false, true] {
                                    if sel.len() > 30 && (prov == Prov::Built || (f32_ && !thorough) || (!thorough && wi == 2)) {
                                        continue;
                                    }
                                    if !thorough && ((si + fi + wi) % 4 != 0 || prov == Prov::Built && par || f32_ && (si % 3 != 0)) && sel.len() < 4 {
                                        continue;
                                    }
                                    if thorough && f32_ && si % 5 != 0 {
                                        continue;
                                    }
                                    let mut s = mk(fam, *n, prov, f32_, par, Api::Mrhs, sel.clone(), *w, EpsKind::Default);
                                    s.alphas.truncate(4);
                                    s.depth = 2;
                                    v.push(s);
                                    // the rank-deficient corner (duplicate columns, user threshold): blocks must still agree
                                    if fi >= 1 && fi <= 2 && si % 7 == 0 {
                                        let mut s = mk(fam, *n, prov, f32_, par, Api::Mrhs, sel.clone(), *w, EpsKind::Val(if f32_ { 1e-3 } else { 1e-8 }));
                                        s.alphas = vec![s.alphas[0].clone(), s.alphas[1].clone(), s.alphas[4].clone()];
                                        s.depth = 2;
                                        v.push(s);
                                    }
                                }
                            }
                        }
                    }
                }
            }
        }
        o => panic!("probstate does not serve {}", o),
    }
    // shape grid: sample counts x right-hand-side counts whose product passes typical byte-sized block limits (a block of
    // columns sized by N * size_of::<T>() is a different number of columns for every N and for f32 / f64)
    if matches!(prop, "C07" | "C02" | "C01" | "C03" | "C11") {
        let pool = [YCol::Noisy, YCol::Off, YCol::OnModel, YCol::OnPlusOff, YCol::TwiceOn];
        for n in [64usize, 128, 257, 512, 1025] {
            for ncols in [5usize, 7, 20, 33] {
                for f32_ in [false, true] {
                    for par in [false, true] {
                        if prop == "C11" && !par {
                            continue;
                        }
                        if !thorough && ((n / 64 + ncols + f32_ as usize + par as usize) % 3 != 0) {
                            continue;
                        }
                        let ycols: Vec<YCol> = (0..ncols).map(|i| pool[(i * 2) % 5].clone()).collect();
                        let mut s = mk(&Family::Exp2Off, n, Prov::Hand, f32_, par, Api::Mrhs, ycols, if ncols % 2 == 0 { WKind::Ramp } else { WKind::None }, EpsKind::Default);
                        s.alphas.truncate(2);
                        s.depth = 1;
                        v.push(s);
                    }
                }
            }
        }
    }
    v
}

fn main() {
    engine_main("probstate", |ctx: Arc<Ctx>| {
        let prop = ctx.args.property.clone();
        if let Some(r) = &ctx.args.replay {
            let v: Value = serde_json::from_str(r).unwrap();
            let tier = v["tier"].as_str().unwrap_or("quick");
            let list = scenarios(&prop, tier == "thorough");
            let idx = v["scenario_index"].as_u64().unwrap() as usize;
            let path: Vec<usize> = v["history"].as_array().unwrap().iter().map(|x| x.as_u64().unwrap() as usize).collect();
            // the depth bound of the exploration is kept: histories within it are replayed by the depth-first search (which
            // copies the problem at every step, as the exploration did), longer ones - found by a long walk - as a walk
            let sc = list[idx].clone();
            if let Some(h0) = v.get("compared_with_history").and_then(|h| h.as_array()) {
                let h0: Vec<usize> = h0.iter().map(|x| x.as_u64().unwrap() as usize).collect();
                COMPANION.with(|c| *c.borrow_mut() = Some(h0));
            }
            // the same heap regime as the exploration: fresh memory NaN-poisoned (an element that is never written shows)
            vpmc::poison::set_poison(Some(0xFF));
            if sc.f32_ {
                explore::<f32>(&ctx, &sc, idx, &prop, Some(path));
            } else {
                explore::<f64>(&ctx, &sc, idx, &prop, Some(path));
            }
            return;
        }
        let list = scenarios(&prop, ctx.args.thorough());
        // fresh heap memory is NaN-poisoned throughout: an element that is never written becomes visible to every oracle
        vpmc::poison::set_poison(Some(0xFF));
        for (i, sc) in list.iter().enumerate() {
            if !ctx.args.mine(i as u64) {
                continue;
            }
            ctx.begin_desc(i as u64, scen_desc(sc));
            if sc.f32_ {
                explore::<f32>(&ctx, sc, i, &prop, None);
            } else {
                explore::<f64>(&ctx, sc, i, &prop, None);
            }
            if i % 97 == 0 {
                ctx.with(|s| s.sample(json!({"scenario": scen_desc(sc), "explored": format!("all histories of set_params over the {} alphabet entries up to depth {}", sc.alphas.len(), sc.depth)})));
            }
        }
    });
}
