//! Free-running pass for the atomicity assumption of the schedule explorer (C11) and for the
//! "no uninitialised memory" clause (C10): the same parallel-Jacobian bodies on REAL rayon,
//! meant to be executed under miri (data-race detector, uninitialised-read detector):
//!   cargo +nightly miri run --bin racecheck
//! Under a cooperative scheduler hand-offs are happens-before edges that would blind a race
//! detector, hence this separate pass.  Prints the usual engine JSON.
use nalgebra::DMatrix;
use serde_json::json;
use vpmc::gen::*;
use vpmc::num::*;
use vpmc::prob::{self, observe, Api};
use vpmc::run::*;
use vpmc::zoo::*;

fn main() {
    let args = Args::parse();
    let ctx = Ctx::new(args);
    let pool = rayon::ThreadPoolBuilder::new().num_threads(3).build().unwrap();
    let fams = [Family::Exp2Off, Family::OLeary, Family::ExpN(4)];
    for fam in fams {
        for (prov, s, weighted) in [(Prov::Hand, 1usize, true), (Prov::Built, 2, false)] {
            if !fam.can_build() && prov == Prov::Built {
                continue;
            }
            let n = 2 * fam.p() + 3;
            let spec = spec_for(&fam, n);
            let (a, _) = truth(&fam);
            let mut y = DMatrix::<f64>::zeros(n, s);
            for c in 0..s {
                y.set_column(c, &data(&spec, 1.0 + c as f64, 5e-3, 1 + c as u64, 3));
            }
            let w = if weighted { WKind::Ramp.make(n).map(|w| vec_t::<f64>(&w)) } else { None };
            let api = if s == 1 { Api::Single } else { Api::Mrhs };
            let seq = prob::build(make::<f64>(&spec, prov, &a), &y, w.as_ref(), None, api, false).unwrap();
            let so = observe(seq.as_ref());
            let po = pool.install(|| {
                let mut par = prob::build(make::<f64>(&spec, prov, &a), &y, w.as_ref(), None, api, true).unwrap();
                let o1 = observe(par.as_ref());
                // a second parameter vector and back: allocations are reused
                let a2: Vec<f64> = a.iter().map(|v| v * 1.1).collect();
                par.set(&vec_t::<f64>(&a2));
                let _ = observe(par.as_ref());
                // a decay constant so small that a derivative column is exactly zero (a corner where an
                // "early return" would leave a Jacobian column unwritten)
                let mut a3 = a.clone();
                a3[0] = 1e-3;
                par.set(&vec_t::<f64>(&a3));
                let _ = observe(par.as_ref());
                par.set(&vec_t::<f64>(&a));
                let o3 = observe(par.as_ref());
                (o1, o3)
            });
            ctx.with(|st| {
                st.inc("evaluations");
                st.inc("distinct_nontrivial");
                st.add("transitions", 3);
                st.add("states", 2);
                st.add("traces_validated", 2);
                if po.0 != so || po.1 != so {
                    st.violate("C11", "parallel-differs-from-sequential", json!({"family": fam.name(), "prov": prov.name(), "s": s}), "free-running real-rayon run differs from the sequential problem".into());
                }
                st.sample(json!({"family": fam.name(), "prov": prov.name(), "s": s, "weighted": weighted, "workers": 3}));
            });
        }
    }
    ctx.emit("done", None);
}
