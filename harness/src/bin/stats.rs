//! E7 – fit statistics (properties C12, C13, C14): product grids over shapes,
//! incidence patterns, weights, noise, scales, scalar widths and provenances;
//! every case is one real `fit_with_statistics` whose result is compared with
//! reference computations (harness/src/refla.rs, data/tquant.json).
use levenberg_marquardt::LevenbergMarquardt;
use nalgebra::{DMatrix, DVector};
use serde_json::{json, Value};
use std::sync::Arc;
use vpmc::gen::*;
use vpmc::num::*;
use vpmc::prob::{self, Api};
use vpmc::refla;
use vpmc::run::*;
use vpmc::wrap::{FaultMode, FaultPlan, Faulty, OnFailedSet};
use vpmc::zoo::*;

#[derive(Debug, Clone)]
struct Case {
    fam: Family,
    n: usize,
    prov: Prov,
    par: bool,
    w: WKind,
    noise_variant: u64,
    level: f64,
    amp: f64,
    /// 0 = default solver, 1 = xtol 1e30 (converges after two evaluations whatever the data), 2 = y := 0 (ResidualsZero)
    solver: u8,
    f32_: bool,
    /// user-chosen singular value threshold (0.0 = builder default)
    eps: f64,
}

fn case_json(c: &Case) -> Value {
    json!({"family": c.fam.name(), "fam": fam_json(&c.fam), "n": c.n, "prov": c.prov.name(), "par": c.par, "w": format!("{:?}", c.w), "wk": wkind_json(&c.w),
           "noise_variant": c.noise_variant, "level": c.level, "amp": c.amp, "solver": c.solver, "scalar": if c.f32_ {"f32"} else {"f64"}, "eps": c.eps})
}
fn fam_json(f: &Family) -> Value {
    f.to_json()
}
fn fam_parse(v: &Value) -> Family {
    Family::from_json(v)
}
fn wkind_json(w: &WKind) -> Value {
    w.to_json()
}
fn wkind_parse(v: &Value) -> WKind {
    WKind::from_json(v)
}
fn case_parse(v: &Value) -> Case {
    Case {
        fam: fam_parse(&v["fam"]),
        n: v["n"].as_u64().unwrap() as usize,
        prov: if v["prov"] == "hand" { Prov::Hand } else { Prov::Built },
        par: v["par"].as_bool().unwrap(),
        w: wkind_parse(&v["wk"]),
        noise_variant: v["noise_variant"].as_u64().unwrap(),
        level: v["level"].as_f64().unwrap(),
        amp: v["amp"].as_f64().unwrap(),
        solver: v["solver"].as_u64().unwrap() as u8,
        f32_: v["scalar"] == "f32",
        eps: v["eps"].as_f64().unwrap_or(0.0),
    }
}

struct TTable {
    nus: Vec<usize>,
    /// (p bits, q, t per nu)
    rows: Vec<(u64, f64, Vec<f64>)>,
}
fn load_ttable(name: &str) -> TTable {
    let v: Value = serde_json::from_str(include_str!("../../data/tquant.json")).unwrap();
    let nus = v["nu"].as_array().unwrap().iter().map(|x| x.as_u64().unwrap() as usize).collect();
    let mut rows = vec![];
    for (_k, r) in v[name].as_object().unwrap() {
        rows.push((r["p_bits"].as_u64().unwrap(), r["q"].as_f64().unwrap(), r["t_isf"].as_array().unwrap().iter().map(|x| x.as_f64().unwrap()).collect()));
    }
    rows.sort_by(|a, b| a.1.partial_cmp(&b.1).unwrap());
    TTable { nus, rows }
}

struct Prepared<T: Sc> {
    spec: ModelSpec,
    y: DVector<T>,
    w: Option<DVector<T>>,
    a0: Vec<T>,
}

fn prepare<T: Sc>(c: &Case, seed: u64) -> Prepared<T> {
    let spec = spec_for(&c.fam, c.n);
    let (a, _) = truth(&c.fam);
    let y = if c.solver == 2 { DVector::from_element(c.n, 0.0) } else { data(&spec, c.amp, c.level, c.noise_variant, seed) };
    Prepared { y: y.map(|v| T::f(v)), w: c.w.make(c.n).map(|w| vec_t::<T>(&w)), a0: a.iter().map(|&v| T::f(v)).collect(), spec }
}

fn solver_for<T: Sc>(c: &Case) -> LevenbergMarquardt<T> {
    match c.solver {
        1 => LevenbergMarquardt::new().with_xtol(T::f(1e30)),
        // tolerances below the resolution of the scalar type: the optimizer ends with NoImprovementPossible (a failed fit)
        3 => LevenbergMarquardt::new().with_ftol(T::f(0.0)).with_xtol(T::f(0.0)).with_gtol(T::f(0.0)),
        _ => LevenbergMarquardt::new(),
    }
}

fn run_case<T: Sc>(ctx: &Ctx, c: &Case, prop: &str, tt: &TTable, seed: u64) {
    let pr = prepare::<T>(c, seed);
    let m = c.fam.m();
    let p = c.fam.p();
    let n = c.n;
    let cj = || {
        let mut v = case_json(c);
        if prop == "C14" {
            if let Some(prev) = PREVIOUS_CASE.with(|p| p.borrow().clone()) {
                v["preceded_by"] = prev;
            }
        }
        v
    };
    let model = make_t::<T>(&pr.spec, c.prov, &pr.a0);
    let ymat = DMatrix::from_column_slice(n, 1, pr.y.as_slice());
    let built = guarded(|| prob::build(model, &ymat, pr.w.as_ref(), if c.eps != 0.0 { Some(T::f(c.eps)) } else { None }, Api::Single, c.par));
    let problem = match built {
        Err(msg) => {
            ctx.with(|s| s.violate("C08", "panic:build", cj(), format!("build panicked: {}", msg)));
            return;
        }
        Ok(Err(_)) => {
            ctx.with(|s| s.inc("build_rejected"));
            return;
        }
        Ok(Ok(p)) => p,
    };
    let res = guarded(|| problem.fit_stats(solver_for::<T>(c)));
    ctx.with(|s| s.inc("evaluations"));
    let (fit, stats) = match res {
        Err(msg) => {
            let sig = if msg.contains("overflow") { "panic:arith-overflow" } else if msg.contains("Singular value") { "panic:svd-nonfinite" } else { "panic:fit_with_statistics" };
            ctx.with(|s| {
                s.violate("C08", sig, cj(), format!("fit_with_statistics panicked: {}", msg));
                if sig == "panic:svd-nonfinite" {
                    // a non-finite basis matrix during the fit is C08's subject; for the statistics properties the case is blocked
                    s.inc("blocked_cases");
                } else {
                    s.violate("C12", sig, cj(), format!("fit_with_statistics panicked: {}", msg));
                }
            });
            return;
        }
        Ok(r) => r,
    };
    ctx.with(|s| s.bucket("termination", &format!("{}{}", if stats.is_some() { "stats:" } else { "nostats:" }, fit.termination.split('{').next().unwrap_or("").split('(').next().unwrap_or(""))));
    let underdetermined = n <= m + p;
    let stats = match stats {
        None => {
            if underdetermined && fit.report_successful {
                ctx.with(|s| {
                    s.inc("underdetermined_rejected_after_successful_fit");
                    s.inc("distinct_nontrivial")
                });
            } else if fit.report_successful {
                ctx.with(|s| s.inc("err_although_fit_successful"));
            }
            // Err must carry the fit result: Ok flag false
            if fit.ok && false {
                unreachable!();
            }
            return;
        }
        Some(st) => st,
    };
    // ---------------- Ok((fit, stats)) ----------------
    if underdetermined {
        ctx.with(|s| s.violate("C12", "ok-although-underdetermined", cj(), format!("fit_with_statistics returned Ok with N={} <= M+P={}", n, m + p)));
        return;
    }
    if !fit.report_successful {
        ctx.with(|s| s.violate("C12", "ok-although-fit-failed", cj(), format!("fit_with_statistics returned Ok although termination was {}", fit.termination)));
        return;
    }
    let eps = T::EPS;
    let dof = (n - m - p) as f64;
    let wr = vec_d(&stats.weighted_residuals());
    let final_res = fit.problem().residuals();
    let coef = fit.coef().map(|c| mat_d(&c));
    let (Some(final_res), Some(coef)) = (final_res, coef) else {
        ctx.with(|s| s.violate("C12", "ok-without-state", cj(), "Ok result whose problem exposes no residuals/coefficients".into()));
        return;
    };
    let final_res = vec_d(&final_res);
    let wv: Option<Vec<f64>> = pr.w.as_ref().map(|w| w.iter().map(|v| v.d()).collect());
    let alpha_hat: Vec<T> = fit.alpha().iter().cloned().collect();
    let phi = pr.spec.eval_ref::<T>(&alpha_hat);
    let phi_w = refla::row_scale(wv.as_deref(), &phi);
    let yw = refla::row_scale(wv.as_deref(), &col(&vec_d(&pr.y)));
    let scale = refla::maxabs(&yw) + refla::fro(&phi_w) * refla::fro(&coef);
    if prop == "C12" {
        // identities
        let mut worst = 0.0f64;
        if wr.len() != n {
            ctx.with(|s| s.violate("C12", "weighted-residuals-length", cj(), format!("weighted_residuals has {} entries for N={}", wr.len(), n)));
            return;
        }
        for i in 0..n {
            worst = worst.max((wr[i] - final_res[i]).abs());
        }
        let tol = 16.0 * eps * scale;
        ctx.with(|s| s.max("C12_wr_vs_final_residuals", worst / tol.max(1e-300)));
        if !(worst <= tol) {
            ctx.with(|s| s.violate("C12", "weighted-residuals-mismatch", cj(), format!("max |weighted_residuals - final residuals| = {:e} > {:e}", worst, tol)));
        }
        // against the definition W(y - Phi c) rebuilt by the harness
        let rdef = &yw - &phi_w * &coef;
        let mut worst2 = 0.0f64;
        for i in 0..n {
            worst2 = worst2.max((wr[i] - rdef[(i, 0)]).abs());
        }
        let tol2 = 64.0 * (m as f64 + 2.0) * eps * scale;
        ctx.with(|s| s.max("C12_wr_vs_definition", worst2 / tol2.max(1e-300)));
        if !(worst2 <= tol2) {
            ctx.with(|s| s.violate("C12", "weighted-residuals-not-W(y-Phi c)", cj(), format!("max |weighted_residuals - W(y-Phi c)| = {:e} > {:e}", worst2, tol2)));
        }
        let ss: f64 = wr.iter().map(|v| v * v).sum();
        let chi = stats.reduced_chi2().d();
        let expect = ss / dof;
        let tolc = (8.0 + n as f64) * eps * expect;
        ctx.with(|s| s.max("C12_chi2", (chi - expect).abs() / tolc.max(1e-300)));
        if !((chi - expect).abs() <= tolc) {
            ctx.with(|s| s.violate("C12", "reduced-chi2", cj(), format!("reduced_chi2 = {:e}, ||r||^2/(N-M-P) = {:e} (N={},M={},P={})", chi, expect, n, m, p)));
        }
        let rse = stats.regression_standard_error().d();
        if !((rse - chi.sqrt()).abs() <= 4.0 * eps * chi.sqrt()) {
            ctx.with(|s| s.violate("C12", "regression-standard-error", cj(), format!("regression_standard_error = {:e}, sqrt(reduced_chi2) = {:e}", rse, chi.sqrt())));
        }
        ctx.with(|s| {
            s.inc("ok_checked");
            s.inc("distinct_nontrivial");
            s.sample(json!({"case": cj(), "reduced_chi2": chi, "dof": dof, "termination": fit.termination}));
        });
        return;
    }
    // ---------- reference H and covariance (C13, C14) ----------
    let dim = m + p;
    let mut j = DMatrix::<f64>::zeros(n, dim);
    for a in 0..m {
        for i in 0..n {
            j[(i, a)] = phi[(i, a)];
        }
    }
    for k in 0..p {
        let dk = pr.spec.deriv_ref::<T>(k, &alpha_hat);
        let v = &dk * &coef;
        for i in 0..n {
            j[(i, m + k)] = v[(i, 0)];
        }
    }
    let h = refla::row_scale(wv.as_deref(), &j);
    let cov = mat_d(stats.covariance_matrix());
    if cov.nrows() != dim || cov.ncols() != dim {
        ctx.with(|s| s.violate("C13", "covariance-shape", cj(), format!("covariance is {}x{}, expected {}x{}", cov.nrows(), cov.ncols(), dim, dim)));
        return;
    }
    // sigma^2 of the property statement, rebuilt from the definition: ||W(y - Phi c)||^2 / (N - M - P) - NOT the library's own
    // reduced_chi2() (C12 judges that one; an error there must not hide an error here, nor the other way round)
    let sigma2 = {
        let rdef = &yw - &phi_w * &coef;
        let dof = (n - m - p) as f64;
        let def = rdef.iter().map(|v| v * v).sum::<f64>() / dof;
        // each residual carries an absolute rounding error delta (the library works in T): when the two values agree within
        // what that explains, the library's number is used (so that rounding noise of an almost exact fit does not enter the
        // covariance comparison); otherwise the definition's
        let delta = 64.0 * (m as f64 + 2.0) * T::EPS * scale;
        let bound = (2.0 * rdef.norm() * delta * (n as f64).sqrt() + n as f64 * delta * delta) / dof;
        let lib = stats.reduced_chi2().d();
        if (lib - def).abs() <= bound + 1e-6 * def {
            lib
        } else {
            ctx.with(|s| s.inc("sigma2_taken_from_the_definition"));
            def
        }
    };
    // reference sigma^2 (H^T H)^-1 from a one-sided Jacobi SVD of the column-scaled H (accurate
    // also for badly scaled H); the comparison tolerance is the NORMWISE bound that every backward
    // stable inversion of H^T H meets:  |dX| <= K eps kappa_2(H^T H) max|X|
    let norms: Vec<f64> = (0..dim).map(|a| h.column(a).norm()).collect();
    let usable = norms.iter().all(|&x| x > 0.0 && x.is_finite()) && sigma2 > 0.0;
    let mut kappa = f64::INFINITY;
    let mut kappa_scaled = f64::INFINITY;
    let mut cov_ref = DMatrix::<f64>::zeros(dim, dim);
    if usable {
        let mut hs = h.clone();
        for a in 0..dim {
            for i in 0..n {
                hs[(i, a)] /= norms[a];
            }
        }
        let sv = refla::svd_jacobi(&hs);
        let su = refla::svd_jacobi(&h);
        if sv.smin() > 0.0 && su.smin() > 0.0 {
            kappa_scaled = (sv.smax() / sv.smin()).powi(2);
            kappa = (su.smax() / su.smin()).powi(2);
            let mut d = DMatrix::<f64>::zeros(dim, dim);
            for a in 0..dim {
                d[(a, a)] = 1.0 / (sv.s[a] * sv.s[a]);
            }
            let inv = &sv.v * d * sv.v.transpose();
            for a in 0..dim {
                for b in 0..dim {
                    cov_ref[(a, b)] = sigma2 * inv[(a, b)] / (norms[a] * norms[b]);
                }
            }
        }
    }
    // K = 2^15: nalgebra's closed-form inverse of a 4 x 4 matrix was measured at 6250 eps kappa (XExpSin, spread weights,
    // kappa 6.7e8: residual ||H^T H X - I|| = 7e-3 where a Cholesky inverse reaches 2e-8); see DESIGN 12.3
    let tol_rel = 32768.0 * eps * kappa;
    let comparable = tol_rel <= 0.25;
    let ref_max = refla::maxabs(&cov_ref);
    if prop == "C13" {
        ctx.with(|s| s.inc("ok_checked"));
        if comparable {
            let mut worst = 0.0f64;
            let mut at = (0, 0);
            for a in 0..dim {
                for b in 0..dim {
                    let r = (cov[(a, b)] - cov_ref[(a, b)]).abs() / (tol_rel * ref_max);
                    if r > worst || r.is_nan() {
                        worst = r;
                        at = (a, b);
                    }
                }
            }
            ctx.with(|s| s.max("C13_cov_vs_reference", worst));
            if !(worst <= 1.0) {
                ctx.with(|s| {
                    s.violate(
                        "C13",
                        "covariance-vs-reference",
                        cj(),
                        format!("cov[{},{}] = {:e}, reference sigma^2 (H^T H)^-1 = {:e}; relative tolerance {:e} (kappa {:e})", at.0, at.1, cov[at], cov_ref[at], tol_rel, kappa),
                    )
                });
            }
            // distinct variances make the ordering observable
            let mut distinct = true;
            for a in 0..dim {
                for b in (a + 1)..dim {
                    if (cov_ref[(a, a)] - cov_ref[(b, b)]).abs() <= 1e-3 * cov_ref[(a, a)].abs().max(cov_ref[(b, b)].abs()) {
                        distinct = false;
                    }
                }
            }
            if distinct {
                ctx.with(|s| s.inc("distinct_nontrivial"));
            }
            // symmetry and diagonal
            for a in 0..dim {
                if !(cov[(a, a)] >= 0.0) {
                    ctx.with(|s| s.violate("C13", "negative-variance", cj(), format!("cov[{0},{0}] = {1:e}", a, cov[(a, a)])));
                }
                for b in 0..dim {
                    if !((cov[(a, b)] - cov[(b, a)]).abs() <= tol_rel * ref_max) {
                        ctx.with(|s| s.violate("C13", "asymmetric", cj(), format!("cov[{},{}]={:e} vs cov[{},{}]={:e}", a, b, cov[(a, b)], b, a, cov[(b, a)])));
                    }
                }
            }
        } else {
            ctx.with(|s| s.inc("ill_conditioned_not_compared"));
        }
        // an Ok result carries a covariance matrix: every entry finite, whatever the conditioning (NaN or infinity is not
        // "sigma^2 (H^T H)^-1 up to rounding", and a NaN diagonal is not non-negative)
        if cov.iter().any(|v| !v.is_finite()) {
            ctx.with(|s| {
                s.violate("C13", "covariance-not-finite", cj(), format!("fit_with_statistics returned Ok with a covariance matrix containing non-finite entries (diagonal {:?}, reduced chi2 {:e})", (0..dim).map(|a| cov[(a, a)]).collect::<Vec<_>>(), sigma2));
            });
        }
        // census (see DESIGN 12.2): Ok results whose covariance has a negative variance although every entry is finite
        if cov.iter().all(|v| v.is_finite()) && (0..dim).any(|a| cov[(a, a)] < 0.0) {
            ctx.with(|s| {
                s.inc("ok_with_negative_variance");
                if kappa_scaled * eps < 0.1 {
                    s.inc("negative_variance_although_well_posed_after_equilibration");
                    // H^T H is ill conditioned ONLY through the scaling of its columns (units of the parameters): after
                    // equilibration digits remain, so a variance cannot be negative "up to rounding" - a genuine defect of the
                    // inversion in FitStatistics::try_calculate (known finding, DESIGN 12.2)
                    s.violate(
                        "C13",
                        "negative-variance-badly-scaled",
                        cj(),
                        format!("variances {:?} of an Ok result; kappa(H^T H) = {:.1e} but only {:.1e} after scaling the columns of H to unit length (eps {:.1e})", (0..dim).map(|a| cov[(a, a)]).collect::<Vec<_>>(), kappa, kappa_scaled, eps),
                    );
                }
                s.bucket("negative_variance", &format!("{} {} w={:?} n={} amp={:e} nv={} kappa={:.1e} kappa_scaled={:.1e} diag={:?}", c.fam.name(), if c.f32_ { "f32" } else { "f64" }, c.w, c.n, c.amp, c.noise_variant, kappa, kappa_scaled, (0..dim).map(|a| cov[(a, a)]).collect::<Vec<_>>()));
            });
        }
        // accessors: exactly the diagonal segments (bitwise)
        let lv = stats.linear_coefficients_variance();
        let nv = stats.nonlinear_parameters_variance();
        let cm = stats.covariance_matrix();
        let okl = lv.len() == m && (0..m).all(|a| lv[a].bits() == cm[(a, a)].bits());
        let okn = nv.len() == p && (0..p).all(|k| nv[k].bits() == cm[(m + k, m + k)].bits());
        if !okl {
            ctx.with(|s| s.violate("C13", "linear-variance-accessor", cj(), format!("linear_coefficients_variance = {:?} is not the first {} diagonal entries {:?}", lv.as_slice(), m, cm.diagonal().as_slice())));
        }
        if !okn {
            ctx.with(|s| s.violate("C13", "nonlinear-variance-accessor", cj(), format!("nonlinear_parameters_variance = {:?} is not the last {} diagonal entries {:?}", nv.as_slice(), p, cm.diagonal().as_slice())));
        }
        // correlation: an identity between reported quantities (covariance normalised by sqrt(C_ii C_jj)), checked
        // whenever the reported variances are positive and finite - also for badly scaled parameter vectors
        let corr = mat_d(&stats.calculate_correlation_matrix());
        let diag_ok = (0..dim).all(|a| cov[(a, a)] > 0.0 && cov[(a, a)].is_finite());
        if diag_ok && corr.nrows() == dim && corr.ncols() == dim {
            for a in 0..dim {
                for b in 0..dim {
                    let denom = (cov[(a, a)].sqrt()) * (cov[(b, b)].sqrt());
                    let expect = cov[(a, b)] / denom;
                    if !expect.is_finite() {
                        continue;
                    }
                    // C_ii*C_jj must be comfortably inside the normal range of the scalar type: a product in the subnormal range
                    // (f32 variances below ~1e-17) loses digits before the square root - a limit of the arithmetic, not of the formula
                    let prod = cov[(a, a)] * cov[(b, b)];
                    let (lo, hi) = if T::EPS > 1e-10 { (1.2e-38 * 1e4, 3.4e38 / 1e4) } else { (2.3e-308 * 1e4, 1.7e308 / 1e4) };
                    if !(prod > lo && prod < hi) {
                        continue;
                    }
                    if !((corr[(a, b)] - expect).abs() <= 16.0 * eps * expect.abs().max(1.0)) {
                        ctx.with(|s| s.violate("C13", "correlation-normalisation", cj(), format!("corr[{},{}] = {:e}, cov_ij/sqrt(cov_ii cov_jj) = {:e}", a, b, corr[(a, b)], expect)));
                    }
                    if comparable && !(corr[(a, b)].abs() <= 1.0 + tol_rel + 8.0 * eps) {
                        ctx.with(|s| s.violate("C13", "correlation-range", cj(), format!("corr[{},{}] = {:e}", a, b, corr[(a, b)])));
                    }
                }
                let prod = cov[(a, a)] * cov[(a, a)];
                let (lo, hi) = if T::EPS > 1e-10 { (1.2e-38 * 1e4, 3.4e38 / 1e4) } else { (2.3e-308 * 1e4, 1.7e308 / 1e4) };
                if prod > lo && prod < hi && !((corr[(a, a)] - 1.0).abs() <= 4.0 * eps) {
                    ctx.with(|s| s.violate("C13", "correlation-diagonal", cj(), format!("corr[{0},{0}] = {1:e}", a, corr[(a, a)])));
                }
            }
            ctx.with(|s| s.inc("correlation_checked"));
        }
        ctx.with(|s| s.sample(json!({"case": cj(), "kappa_scaled": kappa, "compared": comparable, "cov_diag": (0..dim).map(|a| cov[(a,a)]).collect::<Vec<_>>() })));
        return;
    }
    if prop == "C14" {
        let nu = n - m - p;
        let Some(nu_idx) = tt.nus.iter().position(|&x| x == nu) else {
            ctx.with(|s| s.inc("nu_not_in_table"));
            return;
        };
        ctx.with(|s| s.bucket("nu", &format!("{:03}", nu)));
        let mut prev: Option<DVector<T>> = None;
        // query order: the largest level first, then the ascending sweep - so the first request of every fit repeats the
        // level of the last request of the previous fit (a quantile memoised per level but not per degrees of freedom shows)
        let order: Vec<usize> = std::iter::once(tt.rows.len() - 1).chain(0..tt.rows.len()).collect();
        for (qi, &ri) in order.iter().enumerate() {
            let (pbits, _q, ts) = &tt.rows[ri];
            if qi == 0 {
                prev = None;
            }
            let pv = T::from_bits64(*pbits);
            let t_ref = ts[nu_idx];
            let r = guarded(|| stats.confidence_band_radius(pv));
            let rad = match r {
                Err(msg) => {
                    ctx.with(|s| s.violate("C14", "panic-on-legal-p", cj(), format!("confidence_band_radius({}) panicked: {}", pv, msg)));
                    continue;
                }
                Ok(v) => v,
            };
            ctx.with(|s| s.inc("band_evaluations"));
            if rad.len() != n {
                ctx.with(|s| s.violate("C14", "band-length", cj(), format!("radius has {} entries for N={}", rad.len(), n)));
                continue;
            }
            let mut compared_any = false;
            for i in 0..n {
                let ji = j.row(i).transpose();
                let cj_ = &cov * &ji;
                let q = ji.dot(&cj_);
                let mut ampl = 0.0;
                for a in 0..dim {
                    for b in 0..dim {
                        ampl += (ji[a] * cov[(a, b)] * ji[b]).abs();
                    }
                }
                let amp_f = if q.abs() > 0.0 { ampl / q.abs() } else { f64::INFINITY };
                let rounding = 64.0 * eps * amp_f * (dim as f64);
                // the band is a function of the covariance the library reports: no conditioning requirement, only the
                // cancellation inside the quadratic form limits the comparison
                let got = rad[i].d();
                // finite and non-negative: judged wherever the reported covariance can be positive semi-definite at all, i.e.
                // where H^T H is invertible in the working precision (for kappa * eps >~ 1 the sign of a variance, and of the
                // quadratic form under the square root, is rounding noise - the same limit as for C13's diagonal)
                if !(got.is_finite() && got >= 0.0) {
                    // well-posedness is a property of the equilibrated problem (units of the parameters do not matter): digits
                    // remain after the inversion when kappa of the column-scaled H^T H times eps is below 0.1
                    if comparable || kappa_scaled * eps < 0.1 {
                        ctx.with(|s| s.violate("C14", "band-not-finite-nonnegative", cj(), format!("radius[{}] = {:e} for p = {}", i, got, pv)));
                    } else {
                        ctx.with(|s| s.inc("band_nan_in_numerically_singular_fit"));
                    }
                    break;
                }
                if !(rounding <= 1e-2) {
                    continue;
                }
                compared_any = true;
                let expect = t_ref * q.sqrt();
                // the quantile routine of the `distrs` dependency is accurate to about 2e-4 relative and, close to the median
                // (p below ~1e-8, where it returns exactly 0), to about 1e-8 absolute in t
                let tol = (2e-4 + rounding) * expect + 1e-8 * q.sqrt();
                let ratio = (got - expect).abs() / tol.max(1e-300);
                ctx.with(|s| s.max("C14_band_vs_reference", ratio));
                if !(ratio <= 1.0) {
                    ctx.with(|s| s.violate("C14", "band-radius", cj(), format!("radius[{}] = {:e} for p = {} (nu = {}), reference t*sqrt(j^T Cov j) = {:e} (t = {:e})", i, got, pv, nu, expect, t_ref)));
                    break;
                }
            }
            if compared_any {
                ctx.with(|s| s.inc("band_compared"));
            }
            if let Some(pr_) = &prev {
                for i in 0..n {
                    if !(rad[i] >= pr_[i]) && (comparable || (rad[i].d().is_finite() && pr_[i].d().is_finite())) {
                        ctx.with(|s| s.violate("C14", "band-not-monotone-in-p", cj(), format!("radius[{}] decreases from {:e} to {:e} when p increases to {}", i, pr_[i].d(), rad[i].d(), pv)));
                        break;
                    }
                }
            }
            prev = if qi == 0 { None } else { Some(rad) };
        }
        // illegal probabilities must be rejected by a panic
        for bad in [0.0, -0.0, 1.0, -0.1, 1.5, f64::NAN, f64::INFINITY, f64::NEG_INFINITY] {
            let pv = T::f(bad);
            let r = guarded(|| stats.confidence_band_radius(pv));
            if r.is_ok() {
                ctx.with(|s| s.violate("C14", "illegal-p-accepted", cj(), format!("confidence_band_radius({}) returned a value", bad)));
            } else {
                ctx.with(|s| s.inc("illegal_p_rejected"));
            }
        }
        ctx.with(|s| {
            s.inc("ok_checked");
            if comparable {
                s.inc("distinct_nontrivial");
            }
            s.sample(json!({"case": cj(), "nu": nu, "kappa_scaled": kappa}));
        });
    }
}

/// faults at every model call made by the statistics computation (C12: "or the model errs while the statistics are computed")
fn run_fault_sweep<T: Sc>(ctx: &Ctx, c: &Case, seed: u64) {
    let pr = prepare::<T>(c, seed);
    let ymat = DMatrix::from_column_slice(c.n, 1, pr.y.as_slice());
    let count_calls = |stats: bool| -> Option<(u64, bool)> {
        let plan = FaultPlan::never();
        let model = Faulty::wrap(make_t::<T>(&pr.spec, c.prov, &pr.a0), plan.clone());
        let problem = prob::build(model, &ymat, pr.w.as_ref(), if c.eps != 0.0 { Some(T::f(c.eps)) } else { None }, Api::Single, c.par).ok()?;
        let ok = if stats {
            let (_f, s) = problem.fit_stats(solver_for::<T>(c));
            s.is_some()
        } else {
            problem.fit(solver_for::<T>(c)).ok
        };
        Some((plan.calls(), ok))
    };
    let Ok(Some((n_fit, fit_ok))) = guarded(|| count_calls(false)) else { return };
    let Ok(Some((n_total, stats_ok))) = guarded(|| count_calls(true)) else { return };
    if !fit_ok || !stats_ok {
        return;
    }
    for k in n_fit..n_total {
        for mode in [FaultMode::Transient, FaultMode::Persistent] {
            let plan = FaultPlan::new(k, mode, OnFailedSet::Keep);
            let model = Faulty::wrap(make_t::<T>(&pr.spec, c.prov, &pr.a0), plan.clone());
            let r = guarded(|| {
                let problem = prob::build(model, &ymat, pr.w.as_ref(), if c.eps != 0.0 { Some(T::f(c.eps)) } else { None }, Api::Single, c.par).unwrap();
                problem.fit_stats(solver_for::<T>(c))
            });
            ctx.with(|s| {
                s.inc("evaluations");
                s.inc("fault_runs")
            });
            let cjv = json!({"case": case_json(c), "fault_at": k, "mode": format!("{:?}", mode), "calls_in_fit": n_fit, "calls_total": n_total});
            match r {
                Err(msg) => ctx.with(|s| s.violate("C12", "panic:fault-in-statistics", cjv, format!("panicked: {}", msg))),
                Ok((_f, Some(_))) => {
                    if !plan.fired().is_empty() {
                        ctx.with(|s| s.violate("C12", "ok-although-model-erred-in-statistics", cjv, format!("model call {} failed during the statistics computation but fit_with_statistics returned Ok", k)))
                    }
                }
                Ok((_f, None)) => ctx.with(|s| {
                    s.inc("fault_in_statistics_gave_err");
                    s.inc("distinct_nontrivial")
                }),
            }
        }
    }
}

fn shapes_cases(thorough: bool) -> Vec<Case> {
    let mut v = vec![];
    let scal: &[bool] = &[false, true];
    for m in 1..=3usize {
        for p in 1..=3usize {
            // from a single sample on: fewer samples than basis functions as well
            for n in 1..=(m + p + 3) {
                for &f32_ in scal {
                    for prov in [Prov::Hand, Prov::Built] {
                        for w in [WKind::None, WKind::Ramp] {
                            for solver in [0u8, 1, 2, 3] {
                                if !thorough && prov == Prov::Built && solver == 1 {
                                    continue;
                                }
                                v.push(Case { fam: Family::GenProd { m, p, inc: default_inc(m, p) }, n, prov, par: false, w, noise_variant: 1, level: 1e-3, amp: 1.0, solver, f32_, eps: 0.0 });
                                if prov == Prov::Hand && (n < m || solver == 0) {
                                    v.push(Case { fam: Family::GenProd { m, p, inc: default_inc(m, p) }, n, prov, par: true, w, noise_variant: 1, level: 1e-3, amp: 1.0, solver, f32_, eps: 0.0 });
                                }
                            }
                        }
                    }
                }
            }
        }
    }
    // bit-exact perfect fits (every weighted residual exactly 0.0, non-zero coefficients): one basis function whose values at
    // the generating parameter 0.5 are exactly representable, observations an exact multiple, start at the generating parameter
    for (a0, a, b) in [
        (vec![1.0, 0.0, 0.5, 0.0], vec![0.0, 2.0, 0.0, 1.0], vec![0.0, 0.0, 2.0, 2.0]),              // Phi(0.5) = (1, 1, 1, 1)
        (vec![1.0, 0.0, 0.0, 0.0, 0.0], vec![0.0, 4.0, 0.0, 16.0, 0.0], vec![0.0, 0.0, 16.0, 0.0, 64.0]), // Phi(0.5) = (1, 2, 4, 8, 16)
        (vec![2.0, 0.0, 0.0, 0.0, 2.0, 1.0], vec![0.0, 4.0, 0.0, 2.0, 0.0, 2.0], vec![0.0, 0.0, 8.0, 4.0, 0.0, 0.0]), // (2, 2, 2, 2, 2, 2)
    ] {
        let n = a0.len();
        let fam = Family::PolyMat(Arc::new(PolySpec { n, m: 1, p: 1, a0, a: vec![a], b: vec![b] }));
        for amp in [1.0, 3.0, 0.5, 5.0, 1024.0] {
            for f32_ in [false, true] {
                for w in [WKind::None, WKind::Dyadic, WKind::ZeroAt(1)] {
                    v.push(Case { fam: fam.clone(), n, prov: Prov::Hand, par: false, w, noise_variant: 0, level: 0.0, amp, solver: 0, f32_, eps: 0.0 });
                }
            }
        }
    }
    let fams = [Family::Exp1Off, Family::Exp2Off, Family::Exp3, Family::GaussDecayOff, Family::OLeary];
    for fam in fams.iter() {
        for eps in [0.5, 0.05, -0.2] {
            for f32_ in [false, true] {
                for (n, w) in [(12usize, WKind::None), (20, WKind::Ramp)] {
                    v.push(Case { fam: fam.clone(), n, prov: Prov::Hand, par: false, w, noise_variant: 2, level: 1e-3, amp: 1.0, solver: 0, f32_, eps });
                }
            }
        }
    }
    for fam in fams {
        let (m, p) = (fam.m(), fam.p());
        for n in 1..=(m + p + 3) {
            for &f32_ in scal {
                for solver in [0u8, 1, 2, 3] {
                    for par in [false, true] {
                        v.push(Case { fam: fam.clone(), n, prov: if par { Prov::Hand } else { Prov::Built }, par, w: WKind::InvSigma, noise_variant: 2, level: 1e-3, amp: 1.0, solver, f32_, eps: 0.0 });
                    }
                }
            }
        }
    }
    v
}

fn cov_cases(thorough: bool) -> Vec<Case> {
    let mut v = vec![];
    for m in 1..=3usize {
        for p in 1..=3usize {
            let incs = all_incs(m, p);
            for (ii, inc) in incs.iter().enumerate() {
                if !thorough && m * p > 4 && ii % 16 != 5 {
                    continue;
                }
                for extra in [1usize, 4] {
                    for w in [WKind::None, WKind::Ramp, WKind::InvSigma, WKind::Tiny, WKind::Huge] {
                        for nv in [0u64, 1, 2] {
                            for amp in [1.0, 1e-5, 1e5, 4e9] {
                                for f32_ in [false, true] {
                                    for prov in [Prov::Hand, Prov::Built] {
                                        if amp > 1e8 && (f32_ || nv != 1 || prov == Prov::Built) {
                                            continue;
                                        }
                                        if !thorough && (nv == 2 || (prov == Prov::Built && amp != 1.0) || (extra == 4 && w == WKind::Ramp)) {
                                            continue;
                                        }
                                        v.push(Case { fam: Family::GenProd { m, p, inc: *inc }, n: m + p + extra, prov, par: false, w, noise_variant: nv, level: 1e-3, amp, solver: 0, f32_, eps: 0.0 });
                                    }
                                }
                            }
                        }
                    }
                }
            }
        }
    }
    for fam in [Family::Exp1Off, Family::Exp2Off, Family::Exp3, Family::GaussDecayOff, Family::OLeary, Family::XExpSin] {
        // sample counts around powers of two (block-wise / vectorised accumulations have their corner cases there)
        for n in [fam.m() + fam.p() + 2, 24, 60, 64, 127, 128, 129, 256, 1024, 1100] {
            if (!thorough && n > 60 && !matches!(fam, Family::Exp1Off | Family::Exp2Off)) || (!thorough && n > 256 && !matches!(fam, Family::Exp2Off)) {
                continue;
            }
            let mp = fam.m() + fam.p();
            for w in [WKind::None, WKind::Ramp, WKind::InvSigma, WKind::Tiny, WKind::Huge, WKind::Spread, WKind::ZeroAt(2), WKind::NegAt(1), WKind::KeepOnly(mp), WKind::KeepOnly(mp + 1), WKind::KeepOnly(mp + 3), WKind::Giant, WKind::NegRamp, WKind::NegRampZeroAt(2)] {
                for nv in [0u64, 1, 2] {
                    for amp in [1.0, 1e-5, 1e5, 4e9] {
                        for f32_ in [false, true] {
                            if amp > 1e8 && (f32_ || nv != 1) {
                                continue;
                            }
                            for (prov, par) in [(Prov::Hand, false), (Prov::Built, false), (Prov::Built, true)] {
                                v.push(Case { fam: fam.clone(), n, prov, par, w, noise_variant: nv, level: 1e-3, amp, solver: 0, f32_, eps: 0.0 });
                                // high signal-to-noise ratios: relative residuals of 1e-5 and (f64) 1e-9
                                if prov == Prov::Hand && amp == 1.0 && nv == 1 {
                                    v.push(Case { fam: fam.clone(), n, prov, par, w, noise_variant: nv, level: 1e-5, amp, solver: 0, f32_, eps: 0.0 });
                                    if !f32_ {
                                        v.push(Case { fam: fam.clone(), n, prov, par, w, noise_variant: nv, level: 1e-9, amp, solver: 0, f32_, eps: 0.0 });
                                    }
                                }
                            }
                        }
                    }
                }
            }
        }
    }
    v
}

fn band_cases(thorough: bool) -> Vec<Case> {
    let mut v = vec![];
    let fams = [Family::Exp1Off, Family::Exp2Off, Family::GenProd { m: 2, p: 2, inc: default_inc(2, 2) }, Family::XExpSin, Family::OLeary, Family::GaussDecayOff];
    for (fi, fam) in fams.iter().enumerate() {
        if !thorough && fi >= 4 {
            continue;
        }
        for nu in 1..=30usize {
            if !thorough && nu > 20 {
                continue;
            }
            for w in [WKind::None, WKind::InvSigma, WKind::Ramp, WKind::ZeroAt(1), WKind::NegAt(2)] {
                for f32_ in [false, true] {
                    for prov in [Prov::Hand, Prov::Built] {
                        if !thorough && (prov == Prov::Built) != (w == WKind::Ramp) {
                            continue;
                        }
                        v.push(Case { fam: fam.clone(), n: fam.m() + fam.p() + nu, prov, par: false, w, noise_variant: 1, level: 1e-3, amp: 1.0, solver: 0, f32_, eps: 0.0 });
                        if nu % 7 == 2 && prov == Prov::Hand {
                            // 1e-9 / 1e12: products of two variances leave the range of f32
                            for amp in [1e-6, 1e6, 1e-9, 1e12] {
                                v.push(Case { fam: fam.clone(), n: fam.m() + fam.p() + nu, prov, par: false, w, noise_variant: 1, level: 1e-3, amp, solver: 0, f32_, eps: 0.0 });
                            }
                        }
                    }
                }
            }
        }
        // a user threshold above the smallest singular value of the weighted basis matrix: the rank of the decomposition is
        // below M, the degrees of freedom stay N - M - P
        for f32_ in [false, true] {
            for eps in [0.5, 0.05, -0.2] {
                for nu in [2usize, 9] {
                    v.push(Case { fam: fam.clone(), n: fam.m() + fam.p() + nu, prov: Prov::Hand, par: false, w: WKind::None, noise_variant: 1, level: 1e-3, amp: 1.0, solver: 0, f32_, eps });
                }
            }
        }
        for f32_ in [false, true] {
            for nu in [100usize, 995, 1001, 1201, 5000] {
                if nu > 100 && fi >= 2 && fi != 3 {
                    continue;
                }
                v.push(Case { fam: fam.clone(), n: fam.m() + fam.p() + nu, prov: Prov::Hand, par: false, w: WKind::None, noise_variant: 1, level: 1e-3, amp: 1.0, solver: 0, f32_, eps: 0.0 });
                // the parallel flavour: per-sample quantities computed by several workers must stay attached to their sample
                v.push(Case { fam: fam.clone(), n: fam.m() + fam.p() + nu, prov: Prov::Hand, par: true, w: WKind::Ramp, noise_variant: 1, level: 1e-3, amp: 1.0, solver: 0, f32_, eps: 0.0 });
            }
            for nu in [3usize, 13, 28] {
                v.push(Case { fam: fam.clone(), n: fam.m() + fam.p() + nu, prov: Prov::Built, par: true, w: WKind::InvSigma, noise_variant: 1, level: 1e-3, amp: 1.0, solver: 0, f32_, eps: 0.0 });
            }
        }
    }
    v
}

thread_local! {
    /// the case this worker ran immediately before (C14: a quantile memoised across fits shows only with its predecessor)
    static PREVIOUS_CASE: std::cell::RefCell<Option<Value>> = std::cell::RefCell::new(None);
}

fn dispatch(ctx: &Ctx, c: &Case, prop: &str, t64: &TTable, t32: &TTable, seed: u64) {
    if c.f32_ {
        run_case::<f32>(ctx, c, prop, t32, seed)
    } else {
        run_case::<f64>(ctx, c, prop, t64, seed)
    }
    PREVIOUS_CASE.with(|p| *p.borrow_mut() = Some(case_json(c)));
}

fn main() {
    engine_main("stats", |ctx: Arc<Ctx>| {
        let prop = ctx.args.property.clone();
        let seed: u64 = std::env::var("VERIF_SEED").ok().and_then(|s| s.parse().ok()).unwrap_or(0);
        let t64 = load_ttable("f64");
        let t32 = load_ttable("f32");
        if let Some(r) = &ctx.args.replay {
            let v: Value = serde_json::from_str(r).unwrap();
            let c = case_parse(if v.get("case").is_some() { &v["case"] } else { &v });
            if v.get("fault_at").is_some() {
                if c.f32_ {
                    run_fault_sweep::<f32>(&ctx, &c, seed)
                } else {
                    run_fault_sweep::<f64>(&ctx, &c, seed)
                }
            } else {
                let inner = if v.get("case").is_some() { &v["case"] } else { &v };
                if let Some(prev) = inner.get("preceded_by") {
                    if prev.is_object() {
                        let pc = case_parse(prev);
                        dispatch(&ctx, &pc, &prop, &t64, &t32, seed);
                    }
                }
                dispatch(&ctx, &c, &prop, &t64, &t32, seed);
                // a case of the parallel flavour runs on real worker threads: what it computes may depend on their schedule,
                // which a replay does not control - it is repeated (at most 300 times) until the violation shows again
                let mut reps = 0;
                while c.par && reps < 300 && ctx.with(|s| s.violations.is_empty()) {
                    dispatch(&ctx, &c, &prop, &t64, &t32, seed);
                    reps += 1;
                }
            }
            return;
        }
        let thorough = ctx.args.thorough();
        let cases = match prop.as_str() {
            "C12" | "C08" => shapes_cases(thorough),
            "C13" => cov_cases(thorough),
            "C14" => band_cases(thorough),
            o => panic!("stats engine does not serve {}", o),
        };
        for (i, c) in cases.iter().enumerate() {
            if !ctx.args.mine(i as u64) {
                continue;
            }
            ctx.begin_desc(i as u64, case_json(c));
            dispatch(&ctx, c, &prop, &t64, &t32, seed);
        }
        if prop == "C12" {
            // the identities hold for every successful fit: also judge all fits of the covariance grid (weights of every kind,
            // amplitudes 1e-5 .. 4e9, sample counts around powers of two) and, in the thorough tier, of the band grid
            let mut more = cov_cases(thorough);
            if thorough {
                more.extend(band_cases(true));
            }
            for (i, c) in more.iter().enumerate() {
                let idx = 1_000_000 + i as u64;
                if !ctx.args.mine(idx) {
                    continue;
                }
                ctx.begin_desc(idx, case_json(c));
                dispatch(&ctx, c, &prop, &t64, &t32, seed);
            }
        }
        if prop == "C12" && ctx.args.extra.get("faults").map(|s| s == "1").unwrap_or(false) {
            // fault sweep over the statistics phase
            let mut k = cases.len() as u64;
            for c in cases.iter().filter(|c| c.solver == 0 && c.n > c.fam.m() + c.fam.p() && c.w == WKind::None || matches!(c.fam, Family::Exp2Off | Family::OLeary) && c.solver == 0 && c.n > c.fam.m() + c.fam.p()) {
                if ctx.args.mine(k) {
                    ctx.begin_desc(k, case_json(c));
                    if c.f32_ {
                        run_fault_sweep::<f32>(&ctx, c, seed)
                    } else {
                        run_fault_sweep::<f64>(&ctx, c, seed)
                    }
                }
                k += 1;
            }
        }
    });
}
