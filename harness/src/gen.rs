//! Deterministic generators shared by the engines: truths, data, weights, noise, incidence patterns.
use crate::zoo::{linspace, Family, ModelSpec};
use nalgebra::{DMatrix, DVector};

pub fn default_inc(m: usize, p: usize) -> [[bool; 3]; 3] {
    let mut inc = [[false; 3]; 3];
    for j in 0..m {
        inc[j][j % p] = true;
    }
    for k in m..p {
        inc[k % m][k] = true;
    }
    inc
}

/// all M x P incidence patterns in which every parameter is used by some function
pub fn all_incs(m: usize, p: usize) -> Vec<[[bool; 3]; 3]> {
    let mut out = vec![];
    for bits in 0u32..(1 << (m * p)) {
        let mut inc = [[false; 3]; 3];
        for j in 0..m {
            for k in 0..p {
                inc[j][k] = (bits >> (j * p + k)) & 1 == 1;
            }
        }
        if (0..p).all(|k| (0..m).any(|j| inc[j][k])) {
            out.push(inc);
        }
    }
    out
}

/// generating nonlinear parameters and coefficients of a family
pub fn truth(fam: &Family) -> (Vec<f64>, Vec<f64>) {
    match fam {
        Family::Exp1Off | Family::GuardExp => (vec![1.25], vec![2.0, 0.5]),
        Family::Exp2Off => (vec![0.75, 3.0], vec![1.5, 2.5, 0.25]),
        Family::Exp3 => (vec![0.5, 1.75, 6.0], vec![1.0, 2.0, 1.5]),
        Family::GaussDecayOff => (vec![2.0, 0.625, 1.5], vec![1.25, 2.0, 0.5]),
        Family::OLeary => (vec![1.0, 2.5, 4.0], vec![6.0, 1.0]),
        Family::ExpN(n) => ((0..*n).map(|j| 0.5 * 2.5f64.powi(j as i32)).collect(), (0..*n).map(|j| 1.0 + 0.5 * j as f64).collect()),
        Family::Perm4 => (vec![0.5, 2.0, 0.3, 0.2], vec![2.0, 1.0, 0.5]),
        Family::XExpSin => (vec![1.5, 2.0], vec![2.0, 0.7]),
        Family::PolyMat(s) => (vec![0.5; s.p], (0..s.m).map(|j| 1.0 + j as f64).collect()),
        Family::GenProd { m, p, .. } => (vec![0.75, 0.625, 1.25][..*p].to_vec(), vec![1.0, -0.75, 0.5][..*m].to_vec()),
    }
}

pub fn xgrid(fam: &Family, n: usize) -> Vec<f64> {
    match fam {
        Family::Exp1Off | Family::GuardExp | Family::Exp2Off | Family::Exp3 | Family::ExpN(_) => linspace(0.0, 6.0, n),
        Family::GaussDecayOff => linspace(0.0, 5.0, n),
        Family::OLeary => linspace(0.0, 1.5, n),
        Family::Perm4 => linspace(0.0, 3.0, n),
        Family::XExpSin => linspace(0.0, 4.0, n),
        Family::PolyMat(s) => (0..s.n).map(|i| i as f64).collect(),
        Family::GenProd { .. } => linspace(0.125, 2.0, n),
    }
}

pub fn spec_for(fam: &Family, n: usize) -> ModelSpec {
    ModelSpec::new(fam.clone(), xgrid(fam, n))
}

/// bounded pseudo-noise in [-1, 1]; variant 0 is alternating +-1, others come from a 64-bit LCG
pub fn noise(n: usize, variant: u64, seed: u64) -> Vec<f64> {
    if variant == 0 {
        return (0..n).map(|i| if i % 2 == 0 { 1.0 } else { -1.0 }).collect();
    }
    let mut s = seed.wrapping_mul(0x9E3779B97F4A7C15).wrapping_add(variant.wrapping_mul(0xD1B54A32D192ED03)) | 1;
    (0..n)
        .map(|_| {
            s = s.wrapping_mul(6364136223846793005).wrapping_add(1442695040888963407);
            ((s >> 11) as f64 / (1u64 << 53) as f64) * 2.0 - 1.0
        })
        .collect()
}

#[derive(Debug, Clone, Copy, PartialEq, Eq, PartialOrd, Ord)]
pub enum WKind {
    None,
    Ones,
    Threes,
    /// 1, 1/2, 1/4, 1/8, then repeats
    Dyadic,
    /// 1 + i/N
    Ramp,
    /// 1/sigma_i with sigma_i in {0.5, 1, 2}
    InvSigma,
    /// uniform 5e-4 (small absolute scale)
    Tiny,
    /// uniform 2e3 (large absolute scale)
    Huge,
    /// uniform 1e10
    Giant,
    /// a 0/1 selection mask: ones with an exact zero at pos and at the last sample (W*W == W)
    Mask(usize),
    /// alternating +1 / -1 (W*W == I)
    Signs,
    /// uniform 1e20: finite in both scalar widths, its square is not in f32
    Astro,
    /// uniform 1e-18 (every singular value of the weighted basis matrix lies below machine epsilon)
    Atto,
    /// spread 1e-3 .. 1e3
    Spread,
    /// ramp with weight i == pos set to zero
    ZeroAt(usize),
    /// ramp with weight i == pos negated
    NegAt(usize),
    /// every weight negative: -(1 + i/N)
    NegRamp,
    /// no positive weight: -(1 + i/N) with an exact zero at pos
    NegRampZeroAt(usize),
    /// ramp weights at k evenly spread samples (first and last included), exact zeros everywhere else
    KeepOnly(usize),
}
impl WKind {
    pub fn name(&self) -> String {
        format!("{:?}", self)
    }
    pub fn make(&self, n: usize) -> Option<Vec<f64>> {
        let ramp = |i: usize| 1.0 + i as f64 / n as f64;
        match self {
            WKind::None => None,
            WKind::Ones => Some(vec![1.0; n]),
            WKind::Threes => Some(vec![3.0; n]),
            WKind::Dyadic => Some((0..n).map(|i| 1.0 / (1u64 << (i % 4)) as f64).collect()),
            WKind::Ramp => Some((0..n).map(ramp).collect()),
            WKind::InvSigma => Some((0..n).map(|i| 1.0 / [0.5, 1.0, 2.0][i % 3]).collect()),
            WKind::Tiny => Some(vec![5e-4; n]),
            WKind::Huge => Some(vec![2e3; n]),
            WKind::Giant => Some(vec![1e10; n]),
            WKind::Atto => Some(vec![1e-18; n]),
            WKind::Astro => Some(vec![1e20; n]),
            WKind::Mask(p) => Some((0..n).map(|i| if i == *p % n || i == n - 1 { 0.0 } else { 1.0 }).collect()),
            WKind::Signs => Some((0..n).map(|i| if i % 2 == 0 { 1.0 } else { -1.0 }).collect()),
            WKind::Spread => Some((0..n).map(|i| 10f64.powf(-3.0 + 6.0 * (((i * 7) % n) as f64) / ((n.max(2) - 1) as f64))).collect()),
            WKind::ZeroAt(p) => Some((0..n).map(|i| if i == *p % n { 0.0 } else { ramp(i) }).collect()),
            WKind::NegAt(p) => Some((0..n).map(|i| if i == *p % n { -ramp(i) } else { ramp(i) }).collect()),
            WKind::NegRamp => Some((0..n).map(|i| -ramp(i)).collect()),
            WKind::NegRampZeroAt(p) => Some((0..n).map(|i| if i == *p % n { 0.0 } else { -ramp(i) }).collect()),
            WKind::KeepOnly(k) => {
                let k = (*k).clamp(1, n);
                let keep: Vec<usize> = (0..k).map(|j| if k == 1 { 0 } else { j * (n - 1) / (k - 1) }).collect();
                Some((0..n).map(|i| if keep.contains(&i) { ramp(i) } else { 0.0 }).collect())
            }
        }
    }
    /// replayable description (one place for every engine)
    pub fn to_json(&self) -> serde_json::Value {
        use serde_json::json;
        match self {
            WKind::ZeroAt(p) => json!({"ZeroAt": p}),
            WKind::NegAt(p) => json!({"NegAt": p}),
            WKind::KeepOnly(p) => json!({"KeepOnly": p}),
            WKind::Mask(p) => json!({"Mask": p}),
            WKind::NegRampZeroAt(p) => json!({"NegRampZeroAt": p}),
            o => json!(format!("{:?}", o)),
        }
    }
    pub fn from_json(v: &serde_json::Value) -> WKind {
        for (k, f) in [("ZeroAt", WKind::ZeroAt as fn(usize) -> WKind), ("NegAt", WKind::NegAt), ("KeepOnly", WKind::KeepOnly), ("NegRampZeroAt", WKind::NegRampZeroAt), ("Mask", WKind::Mask)] {
            if let Some(p) = v.get(k) {
                return f(p.as_u64().unwrap() as usize);
            }
        }
        let s = v.as_str().expect("weight kind");
        // also the Debug form "ZeroAt(2)"
        for (k, f) in [("ZeroAt(", WKind::ZeroAt as fn(usize) -> WKind), ("NegAt(", WKind::NegAt), ("KeepOnly(", WKind::KeepOnly), ("NegRampZeroAt(", WKind::NegRampZeroAt), ("Mask(", WKind::Mask)] {
            if let Some(r) = s.strip_prefix(k) {
                return f(r.trim_end_matches(')').parse().unwrap());
            }
        }
        match s {
            "None" => WKind::None,
            "Ones" => WKind::Ones,
            "Threes" => WKind::Threes,
            "Dyadic" => WKind::Dyadic,
            "Ramp" => WKind::Ramp,
            "InvSigma" => WKind::InvSigma,
            "Tiny" => WKind::Tiny,
            "Huge" => WKind::Huge,
            "Giant" => WKind::Giant,
            "Atto" => WKind::Atto,
            "Astro" => WKind::Astro,
            "Signs" => WKind::Signs,
            "NegRamp" => WKind::NegRamp,
            "Spread" => WKind::Spread,
            o => panic!("wkind {}", o),
        }
    }
}

/// y = amp * (Phi(alpha*) c* + level * noise * max|Phi c*|)
pub fn data(spec: &ModelSpec, amp: f64, level: f64, noise_variant: u64, seed: u64) -> DVector<f64> {
    let (a, c) = truth(&spec.fam);
    let phi = spec.eval_ref::<f64>(&a);
    let y0 = &phi * DVector::from_vec(c);
    let mx = y0.iter().fold(0.0f64, |m, v| m.max(v.abs())).max(1e-300);
    let nz = noise(spec.n(), noise_variant, seed);
    DVector::from_fn(spec.n(), |i, _| amp * (y0[i] + level * nz[i] * mx))
}

pub fn col(v: &DVector<f64>) -> DMatrix<f64> {
    DMatrix::from_column_slice(v.len(), 1, v.as_slice())
}
