pub mod gen;
pub mod mbref;
pub mod num;
pub mod prob;
pub mod refla;
pub mod run;
pub mod wrap;
pub mod zoo;
