//! Reference specification automaton for `SeparableModelBuilder` (property C15),
//! written from the property statement and the rustdoc: it consumes a builder
//! call sequence and yields the set of defects present in it.  A specification
//! is valid iff that set is empty.  Defects carry their payload so that "the
//! error names a defect actually present" can be checked literally.
use nalgebra::DVector;
use std::collections::BTreeSet;
use varpro::model::builder::error::ModelBuildError;
use varpro::model::builder::SeparableModelBuilder;
use varpro::model::SeparableModel;

#[derive(Debug, Clone, PartialEq, Eq, Hash)]
pub enum Sym {
    Func { names: Vec<&'static str>, arity: usize },
    Pd { name: &'static str, arity: usize },
    Inv,
    X,
    /// independent_variable called with a zero-length vector (the call was made: not "missing")
    XEmpty,
    Init(usize),
}

impl Sym {
    pub fn show(&self) -> String {
        match self {
            Sym::Func { names, arity } => format!("function({:?},arity{})", names, arity),
            Sym::Pd { name, arity } => format!("partial_deriv({:?},arity{})", name, arity),
            Sym::Inv => "invariant_function".into(),
            Sym::X => "independent_variable".into(),
            Sym::XEmpty => "independent_variable(empty)".into(),
            Sym::Init(n) => format!("initial_parameters(len{})", n),
        }
    }
}

pub type Word = (Vec<&'static str>, Vec<Sym>);

pub fn show_word(w: &Word) -> Vec<String> {
    let mut v = vec![format!("new({:?})", w.0)];
    v.extend(w.1.iter().map(|s| s.show()));
    v.push("build()".into());
    v
}

#[derive(Debug, Clone)]
struct FuncRec {
    names: Vec<&'static str>,
    derivs: Vec<&'static str>,
    invariant: bool,
}

fn list(v: &[&str]) -> String {
    v.join(",")
}

fn check_names(names: &[&'static str], d: &mut BTreeSet<String>) {
    if names.is_empty() {
        d.insert("EmptyParameters".into());
    }
    for n in names {
        if n.contains(',') {
            d.insert(format!("CommaInParameterNameNotAllowed|{}", n));
        }
    }
    let mut seen = BTreeSet::new();
    if !names.iter().all(|n| seen.insert(*n)) {
        d.insert(format!("DuplicateParameterNames|{}", list(names)));
    }
}

/// the set of defects present in the call sequence `new(model) . syms . build()`
pub fn reference_defects(w: &Word) -> BTreeSet<String> {
    let (model, syms) = w;
    let mut d = BTreeSet::new();
    check_names(model, &mut d);
    let p = model.len();
    let mut funcs: Vec<FuncRec> = vec![];
    let mut pending: Option<FuncRec> = None;
    let mut has_x = false;
    let mut has_init = false;
    fn finalize(pending: &mut Option<FuncRec>, funcs: &mut Vec<FuncRec>, d: &mut BTreeSet<String>) {
        if let Some(f) = pending.take() {
            for n in &f.names {
                if !f.derivs.contains(n) {
                    d.insert(format!("MissingDerivative|{}|{}", n, list(&f.names)));
                }
            }
            funcs.push(f);
        }
    }
    for s in syms {
        match s {
            Sym::Func { names, arity } => {
                finalize(&mut pending, &mut funcs, &mut d);
                check_names(names, &mut d);
                if names.len() != *arity {
                    d.insert(format!("IncorrectParameterCount|actual={}|expected={}", names.len(), arity));
                }
                for n in names {
                    if !model.contains(n) {
                        d.insert(format!("FunctionParameterNotInModel|{}", n));
                    }
                }
                pending = Some(FuncRec { names: names.clone(), derivs: vec![], invariant: false });
            }
            Sym::Pd { name, arity } => match pending.as_mut() {
                None => {
                    d.insert("IllegalCallToPartialDeriv".into());
                }
                Some(f) => {
                    if !f.names.contains(name) {
                        d.insert(format!("InvalidDerivative|{}|{}", name, list(&f.names)));
                    }
                    if f.names.len() != *arity {
                        d.insert(format!("IncorrectParameterCount|actual={}|expected={}", f.names.len(), arity));
                    }
                    if f.derivs.contains(name) {
                        d.insert(format!("DuplicateDerivative|{}", name));
                    }
                    f.derivs.push(name);
                }
            },
            Sym::Inv => {
                finalize(&mut pending, &mut funcs, &mut d);
                funcs.push(FuncRec { names: vec![], derivs: vec![], invariant: true });
            }
            Sym::X | Sym::XEmpty => {
                finalize(&mut pending, &mut funcs, &mut d);
                has_x = true;
            }
            Sym::Init(n) => {
                finalize(&mut pending, &mut funcs, &mut d);
                if *n != p {
                    d.insert(format!("IncorrectParameterCount|actual={}|expected={}", n, p));
                } else {
                    has_init = true;
                }
            }
        }
    }
    finalize(&mut pending, &mut funcs, &mut d);
    if funcs.is_empty() {
        d.insert("EmptyModel".into());
    }
    for m in model {
        if !funcs.iter().any(|f| !f.invariant && f.names.contains(m)) {
            d.insert(format!("UnusedParameter|{}", m));
        }
    }
    if !has_x {
        d.insert("MissingX".into());
    }
    if !has_init {
        d.insert("MissingInitialParameters".into());
    }
    d
}

/// canonical (kind|payload) string of an implementation error
pub fn canon_err(e: &ModelBuildError) -> String {
    match e {
        ModelBuildError::DuplicateParameterNames { function_parameters } => format!("DuplicateParameterNames|{}", function_parameters.join(",")),
        ModelBuildError::EmptyParameters => "EmptyParameters".into(),
        ModelBuildError::FunctionParameterNotInModel { function_parameter } => format!("FunctionParameterNotInModel|{}", function_parameter),
        ModelBuildError::InvalidDerivative { parameter, function_parameters } => format!("InvalidDerivative|{}|{}", parameter, function_parameters.join(",")),
        ModelBuildError::DuplicateDerivative { parameter } => format!("DuplicateDerivative|{}", parameter),
        ModelBuildError::MissingDerivative { missing_parameter, function_parameters } => format!("MissingDerivative|{}|{}", missing_parameter, function_parameters.join(",")),
        ModelBuildError::EmptyModel => "EmptyModel".into(),
        ModelBuildError::UnusedParameter { parameter } => format!("UnusedParameter|{}", parameter),
        ModelBuildError::IncorrectParameterCount { actual, expected } => format!("IncorrectParameterCount|actual={}|expected={}", actual, expected),
        ModelBuildError::CommaInParameterNameNotAllowed { param_name } => format!("CommaInParameterNameNotAllowed|{}", param_name),
        ModelBuildError::MissingX => "MissingX".into(),
        ModelBuildError::MissingInitialParameters => "MissingInitialParameters".into(),
        ModelBuildError::IllegalCallToPartialDeriv => "IllegalCallToPartialDeriv".into(),
    }
}
pub fn kind_of(canon: &str) -> &str {
    canon.split('|').next().unwrap()
}

fn f1(x: &DVector<f64>, a: f64) -> DVector<f64> {
    x.map(|v| v * a)
}
fn f2(x: &DVector<f64>, a: f64, b: f64) -> DVector<f64> {
    x.map(|v| v * a + b)
}
fn f3(x: &DVector<f64>, a: f64, b: f64, c: f64) -> DVector<f64> {
    x.map(|v| v * a + b * c)
}

/// a user-defined basis function type of arity N (for the long parameter lists; closures stop at 10 arguments)
pub struct AnyN<const N: usize>;
pub struct AnyNArgs<const N: usize>;
impl<const N: usize> varpro::prelude::BasisFunction<f64, AnyNArgs<N>> for AnyN<N> {
    fn eval(&self, x: &DVector<f64>, params: &[f64]) -> DVector<f64> {
        let s: f64 = params[..N].iter().sum();
        x.map(|v| v * s)
    }
    const ARGUMENT_COUNT: usize = N;
}

pub fn apply(b: SeparableModelBuilder<f64>, s: &Sym) -> SeparableModelBuilder<f64> {
    match s {
        Sym::Func { names, arity } => match arity {
            1 => b.function(names.iter().copied(), f1),
            2 => b.function(names.iter().copied(), f2),
            3 => b.function(names.iter().copied(), f3),
            9 => b.function(names.iter().copied(), AnyN::<9>),
            10 => b.function(names.iter().copied(), AnyN::<10>),
            12 => b.function(names.iter().copied(), AnyN::<12>),
            _ => unreachable!(),
        },
        Sym::Pd { name, arity } => match arity {
            1 => b.partial_deriv(*name, f1),
            2 => b.partial_deriv(*name, f2),
            3 => b.partial_deriv(*name, f3),
            9 => b.partial_deriv(*name, AnyN::<9>),
            10 => b.partial_deriv(*name, AnyN::<10>),
            12 => b.partial_deriv(*name, AnyN::<12>),
            _ => unreachable!(),
        },
        Sym::Inv => b.invariant_function(|x: &DVector<f64>| x.clone()),
        Sym::X => b.independent_variable(DVector::from_vec(vec![1.0, 2.0, 3.0])),
        Sym::XEmpty => b.independent_variable(DVector::from_vec(vec![])),
        Sym::Init(n) => b.initial_parameters(vec![1.5; *n]),
    }
}

pub fn run_impl(w: &Word) -> Result<SeparableModel<f64>, ModelBuildError> {
    let mut b = SeparableModelBuilder::<f64>::new(w.0.iter().copied());
    for s in &w.1 {
        b = apply(b, s);
    }
    b.build()
}

/// Some(signature, detail) if the implementation disagrees with the reference on this word
pub fn judge(w: &Word) -> (bool, Option<String>, Option<(String, String)>) {
    let d = reference_defects(w);
    let valid = d.is_empty();
    let r = crate::run::guarded(|| run_impl(w));
    match r {
        Err(msg) => (valid, None, Some(("panic".into(), format!("builder panicked: {}", msg)))),
        Ok(Ok(_)) => {
            if valid {
                (valid, None, None)
            } else {
                (valid, None, Some(("accepted-invalid".into(), format!("build() returned Ok although the specification has defects {:?}", d))))
            }
        }
        Ok(Err(e)) => {
            let c = canon_err(&e);
            if valid {
                (valid, Some(c.clone()), Some(("rejected-valid".into(), format!("build() returned Err({}) for a valid specification", c))))
            } else if d.contains(&c) {
                (valid, Some(c), None)
            } else {
                let kinds: BTreeSet<&str> = d.iter().map(|s| kind_of(s)).collect();
                let sig = if kinds.contains(kind_of(&c)) { format!("wrong-payload:{}", kind_of(&c)) } else { format!("wrong-kind:{}", kind_of(&c)) };
                (valid, Some(c.clone()), Some((sig, format!("error {} names a defect that is not present; defects present: {:?}", c, d))))
            }
        }
    }
}

#[cfg(test)]
mod t {
    use super::*;
    fn w(model: &[&'static str], syms: Vec<Sym>) -> Word {
        (model.to_vec(), syms)
    }
    #[test]
    fn reference_accepts_a_valid_specification() {
        let word = w(&["a", "b"], vec![Sym::Func { names: vec!["b", "a"], arity: 2 }, Sym::Pd { name: "a", arity: 2 }, Sym::Pd { name: "b", arity: 2 }, Sym::Inv, Sym::X, Sym::Init(2)]);
        assert!(reference_defects(&word).is_empty());
        assert!(judge(&word).2.is_none());
    }
    #[test]
    fn reference_names_every_defect() {
        let word = w(&["a", "a"], vec![Sym::Pd { name: "c", arity: 1 }, Sym::Func { names: vec!["c"], arity: 2 }, Sym::Init(5)]);
        let d = reference_defects(&word);
        for k in ["DuplicateParameterNames|a,a", "IllegalCallToPartialDeriv", "IncorrectParameterCount|actual=1|expected=2", "FunctionParameterNotInModel|c", "MissingDerivative|c|c", "IncorrectParameterCount|actual=5|expected=2", "UnusedParameter|a", "MissingX", "MissingInitialParameters"] {
            assert!(d.contains(k), "missing {} in {:?}", k, d);
        }
    }
    #[test]
    fn derivative_of_a_declared_but_foreign_parameter_is_not_an_invalid_derivative() {
        let word = w(&["a"], vec![Sym::Func { names: vec!["b"], arity: 1 }, Sym::Pd { name: "b", arity: 1 }]);
        let d = reference_defects(&word);
        assert!(d.contains("FunctionParameterNotInModel|b"));
        assert!(!d.iter().any(|s| s.starts_with("InvalidDerivative")));
    }
}
