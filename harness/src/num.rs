//! Scalar abstraction over the two widths varpro supports (f32, f64).
use nalgebra::{DMatrix, DVector, RealField};
use num_traits::{Float, FromPrimitive};
use varpro::statistics::numeric_traits::CastF64;

pub trait Sc:
    RealField
    + Float
    + FromPrimitive
    + CastF64
    + Copy
    + std::fmt::Debug
    + std::fmt::Display
    + Send
    + Sync
    + 'static
    + std::ops::Mul<Self, Output = Self>
{
    const NAME: &'static str;
    const EPS: f64;
    fn f(v: f64) -> Self;
    fn d(self) -> f64;
    fn bits(self) -> u64;
    fn from_bits64(b: u64) -> Self;
}

impl Sc for f64 {
    const NAME: &'static str = "f64";
    const EPS: f64 = f64::EPSILON;
    #[inline]
    fn f(v: f64) -> Self {
        v
    }
    #[inline]
    fn d(self) -> f64 {
        self
    }
    #[inline]
    fn bits(self) -> u64 {
        self.to_bits()
    }
    fn from_bits64(b: u64) -> Self {
        f64::from_bits(b)
    }
}

impl Sc for f32 {
    const NAME: &'static str = "f32";
    const EPS: f64 = f32::EPSILON as f64;
    #[inline]
    fn f(v: f64) -> Self {
        v as f32
    }
    #[inline]
    fn d(self) -> f64 {
        self as f64
    }
    #[inline]
    fn bits(self) -> u64 {
        self.to_bits() as u64
    }
    fn from_bits64(b: u64) -> Self {
        f32::from_bits(b as u32)
    }
}

pub fn vec_t<T: Sc>(v: &[f64]) -> DVector<T> {
    DVector::from_iterator(v.len(), v.iter().map(|&x| T::f(x)))
}

pub fn mat_d<T: Sc>(m: &DMatrix<T>) -> DMatrix<f64> {
    m.map(|v| v.d())
}

pub fn vec_d<T: Sc>(m: &DVector<T>) -> DVector<f64> {
    m.map(|v| v.d())
}

pub fn mat_t<T: Sc>(m: &DMatrix<f64>) -> DMatrix<T> {
    m.map(|v| T::f(v))
}

/// FNV-1a over a stream of u64 words; deterministic across runs and platforms.
#[derive(Clone, Copy)]
pub struct Fnv(pub u64);
impl Default for Fnv {
    fn default() -> Self {
        Fnv(0xcbf29ce484222325)
    }
}
impl Fnv {
    #[inline]
    pub fn w(&mut self, v: u64) {
        for i in 0..8 {
            self.0 ^= (v >> (8 * i)) & 0xff;
            self.0 = self.0.wrapping_mul(0x100000001b3);
        }
    }
    pub fn s(&mut self, s: &str) {
        for b in s.bytes() {
            self.0 ^= b as u64;
            self.0 = self.0.wrapping_mul(0x100000001b3);
        }
    }
}

pub fn hex_bits<T: Sc>(v: &[T]) -> Vec<String> {
    v.iter().map(|x| format!("{:x}", x.bits())).collect()
}
