//! Numerical oracles shared by the state explorer (E1) and the fit engines:
//! reference quantities for one (model, alpha, Y, w, threshold) and the
//! certificate / comparison checks of properties C01, C02, C03.
use crate::num::*;
use crate::prob::Obs;
use crate::refla::{self, RefSvd};
use crate::zoo::ModelSpec;
use nalgebra::{DMatrix, DVector};

#[derive(Debug, Clone, Copy, PartialEq, Eq)]
pub enum RankClass {
    /// every singular value is surely kept
    Full,
    /// every singular value is surely kept or surely truncated, at least one truncated
    Truncated,
    /// some singular value is too close to the threshold (or to the rounding floor) to decide
    Ambiguous,
    /// the basis matrix has non-finite entries
    NonFinite,
}

pub struct Reference {
    pub phi_w: DMatrix<f64>,
    pub yw: DMatrix<f64>,
    pub svd: Option<RefSvd>,
    pub thr: f64,
    pub kept: Vec<bool>,
    pub class: RankClass,
    pub kappa_kept: f64,
    pub smax: f64,
    pub smin_kept: f64,
    pub c_ref: DMatrix<f64>,
    pub w: Option<Vec<f64>>,
    /// the weighted basis matrix is exactly diagonal (crafted scenarios): the solution is one division per coefficient
    pub exact: bool,
}

/// `thr` is the configured threshold as the implementation must use it (absolute value, or
/// machine epsilon of T when none was configured).  `exact` declares that the weighted basis
/// matrix is exactly diagonal, so computed singular values carry no rounding noise.
pub fn reference<T: Sc>(spec: &ModelSpec, alpha: &[T], y: &DMatrix<T>, w: Option<&DVector<T>>, thr: f64, exact: bool) -> Reference {
    let phi = spec.eval_ref::<T>(alpha);
    let wv: Option<Vec<f64>> = w.map(|w| w.iter().map(|v| v.d()).collect());
    let phi_w = refla::row_scale(wv.as_deref(), &phi);
    let yw = refla::row_scale(wv.as_deref(), &mat_d(y));
    let m = phi.ncols();
    if !refla::all_finite(&phi_w) {
        return Reference { phi_w, yw, svd: None, thr, kept: vec![], class: RankClass::NonFinite, kappa_kept: f64::INFINITY, smax: f64::NAN, smin_kept: f64::NAN, c_ref: DMatrix::zeros(m, y.ncols()), w: wv, exact };
    }
    let svd = refla::svd_jacobi(&phi_w);
    let smax = svd.smax();
    // what an exactly-zero singular value may look like after the implementation's SVD in T
    let floor = if exact { 0.0 } else { 64.0 * T::EPS * smax * (phi.nrows().max(m) as f64) };
    let mut kept = vec![false; m];
    let mut class = RankClass::Full;
    for j in 0..m {
        let s = svd.s[j];
        if s >= 2.0 * thr + 2.0 * floor && s > 0.0 {
            kept[j] = true;
        } else if s <= 0.5 * thr - floor {
            kept[j] = false;
            if class == RankClass::Full {
                class = RankClass::Truncated;
            }
        } else {
            class = RankClass::Ambiguous;
        }
    }
    let smin_kept = (0..m).filter(|&j| kept[j]).map(|j| svd.s[j]).fold(f64::INFINITY, f64::min);
    let kappa_kept = if smin_kept.is_finite() { smax / smin_kept } else { 1.0 };
    // reference truncated pseudo-inverse solution with exactly the kept set
    let mut utb = svd.u.transpose() * &yw;
    for j in 0..m {
        let f = if kept[j] { 1.0 / svd.s[j] } else { 0.0 };
        for c in 0..utb.ncols() {
            utb[(j, c)] *= f;
        }
    }
    let c_ref = &svd.v * utb;
    Reference { phi_w, yw, svd: Some(svd), thr, kept, class, kappa_kept, smax, smin_kept, c_ref, w: wv, exact }
}

pub struct Finding {
    pub property: &'static str,
    pub signature: String,
    pub detail: String,
}
fn f(property: &'static str, signature: &str, detail: String) -> Finding {
    Finding { property, signature: signature.to_string(), detail }
}

/// ratio gauge: (name, observed / tolerance)
pub type Gauges = Vec<(&'static str, f64)>;

/// C01: optimality certificate, minimum norm, reference comparison, finiteness
pub fn check_c01<T: Sc>(r: &Reference, obs: &Obs<T>, out: &mut Vec<Finding>, g: &mut Gauges) {
    let eps = T::EPS;
    let Some(svd) = &r.svd else { return };
    let Some(c) = obs.coef_f64() else {
        // A basis matrix whose dynamic range exceeds what the scalar type can hold in one decomposition (largest / smallest
        // non-zero singular value above 1/eps^2: 7e13 in f32, 2e31 in f64) is beyond any working-precision SVD - nalgebra's
        // returns NaN singular values there, and the repaired library (fix 17817ed) treats that like a failed evaluation.
        // Not judged; everything else that evaluates must report coefficients.
        let smax = svd.s.iter().cloned().fold(0.0f64, f64::max);
        let smin_pos = svd.s.iter().cloned().filter(|v| *v > 0.0).fold(f64::INFINITY, f64::min);
        if smax.is_finite() && smin_pos.is_finite() && smax / smin_pos > 1.0 / (eps * eps) {
            return;
        }
        out.push(f("C01", "coefficients-absent", "the model evaluates (finite basis matrix) but the problem reports no linear coefficients".into()));
        return;
    };
    let n = r.phi_w.nrows();
    let m = r.phi_w.ncols();
    if c.nrows() != m || c.ncols() != r.yw.ncols() {
        out.push(f("C01", "coefficient-shape", format!("coefficients are {}x{}, expected {}x{}", c.nrows(), c.ncols(), m, r.yw.ncols())));
        return;
    }
    if r.class == RankClass::Ambiguous {
        return;
    }
    // all values stay finite (also in the rank-deficient corner)
    let finite = refla::all_finite(&c) && obs.res_f64().map(|v| v.iter().all(|x| x.is_finite())).unwrap_or(true) && obs.jac_f64().map(|j| refla::all_finite(&j)).unwrap_or(true);
    if !finite && refla::all_finite(&r.yw) {
        out.push(f("C01", "non-finite-values", format!("rank class {:?}: coefficients, residuals or Jacobian contain non-finite values", r.class)));
        return;
    }
    if !refla::all_finite(&r.yw) {
        return;
    }
    // crafted, exactly diagonal basis matrices: every coefficient is one exact division (or exactly zero when its singular
    // value is truncated) - compared entry by entry, however small the singular value (the kappa-scaled bounds below cannot
    // see a kept singular value of 1e-18 next to 1)
    if r.exact && (r.class == RankClass::Full || r.class == RankClass::Truncated) {
        for s in 0..c.ncols() {
            for j in 0..m {
                let (got, want) = (c[(j, s)], r.c_ref[(j, s)]);
                if !((got - want).abs() <= 64.0 * eps * want.abs() + 1e-300) {
                    out.push(f("C01", "not-least-squares-optimal", format!("rhs {}: coefficient {} of the exactly diagonal problem is {:e}, the (truncated) least-squares solution has {:e} (singular values {:?}, threshold {:e})", s, j, got, want, svd.s, r.thr)));
                    return;
                }
            }
        }
    }
    let k = 256.0 * (n.max(m) as f64);
    let phi_f = refla::fro(&r.phi_w);
    let resid = &r.yw - &r.phi_w * &c;
    // Fallback acceptance.  The tight bounds below are what a backward stable solver achieves.  The
    // property, however, only says "minimises" and "minimum norm", and nalgebra 0.33's SVD is measurably
    // less accurate in one legitimate corner (a basis column of norm ~1e-12 next to O(1) columns: backward
    // error 2.5e-8, coefficients off by 5e-11 relative).  A coefficient vector whose fitted values differ
    // from the reference minimiser's by less than `floor`*|y_w| (i.e. the objective exceeds the minimum by
    // less than floor^2 relative) and whose component along truncated directions is below `floor`*|c| is
    // accepted and counted (gauge C01_accepted_by_excess_objective), not reported.
    // (measured up to 3.5e-7 |y_w| in fitted values on the fit grid; the floor leaves a factor 30).  The fallback
    // is only available in that corner: some singular value below 1e-6 sigma_max.  Elsewhere the tight bounds decide.
    let floor = if T::EPS > 1e-10 { 2e-3 } else { 1e-5 };
    let corner = svd.s.iter().cloned().fold(f64::INFINITY, f64::min) < 1e-6 * r.smax;
    let fallback_val = |s: usize| -> (f64, f64) {
        let dc = &c.column(s) - &r.c_ref.column(s);
        let mut fitted = 0.0f64;
        let mut trunc = 0.0f64;
        for j in 0..m {
            let comp = svd.v.column(j).dot(&dc);
            if r.kept[j] {
                fitted += (svd.s[j] * comp).powi(2);
            } else {
                trunc = trunc.max(svd.v.column(j).dot(&c.column(s)).abs());
            }
        }
        let ys = r.yw.column(s).norm();
        (fitted.sqrt() / ys.max(1e-300), trunc / c.column(s).norm().max(ys / r.smax.max(1e-300)).max(1e-300))
    };
    let fallback_ok = |s: usize| -> bool {
        let (a, b) = fallback_val(s);
        corner && a <= floor && b <= floor
    };
    for s in 0..c.ncols() {
        let cs = c.column(s).norm();
        let ys = r.yw.column(s).norm();
        let scale = phi_f * cs + ys;
        // certificate on the kept subspace: sigma_j u_j^T r = 0
        let mut worst = 0.0f64;
        for j in 0..m {
            if r.kept[j] {
                let v = svd.s[j] * svd.u.column(j).dot(&resid.column(s));
                worst = worst.max(v.abs());
            }
        }
        let tol = k * eps * phi_f * scale;
        if !(worst <= tol) {
            if fallback_ok(s) {
                g.push(("C01_accepted_by_excess_objective", 1.0));
                continue;
            }
            out.push(f(
                "C01",
                "not-least-squares-optimal",
                format!("rhs {}: |Phi_w^T (y_w - Phi_w c)| = {:e} on the retained subspace exceeds {:e} (class {:?}, singular values {:?}, threshold {:e}; fitted values differ from the minimiser's by {:e} |y_w|, truncated component {:e} |c|)", s, worst, tol, r.class, svd.s, r.thr, fallback_val(s).0, fallback_val(s).1),
            ));
            return;
        }
        g.push(("C01_certificate", worst / tol.max(1e-300)));
        // minimum norm: no component along truncated right singular vectors
        let mut min_norm_bad: Option<String> = None;
        for j in 0..m {
            if !r.kept[j] {
                let v = svd.v.column(j).dot(&c.column(s)).abs();
                let tol = k * eps * r.kappa_kept * cs.max(ys / r.smax.max(1e-300));
                if !(v <= tol) {
                    min_norm_bad = Some(format!("rhs {}: coefficient vector has component {:e} along a right singular vector whose singular value {:e} is below the threshold {:e} (tolerance {:e})", s, v, svd.s[j], r.thr, tol));
                } else {
                    g.push(("C01_minimum_norm", v / tol.max(1e-300)));
                }
            }
        }
        if let Some(msg) = min_norm_bad {
            if fallback_ok(s) {
                g.push(("C01_accepted_by_excess_objective", 1.0));
                continue;
            }
            out.push(f("C01", "not-minimum-norm", msg));
            return;
        }
        // agreement with the reference truncated pseudo-inverse solution
        let cr = r.c_ref.column(s);
        let rr = (&r.yw.column(s) - &r.phi_w * &cr).norm();
        let tolc = k * eps * (r.kappa_kept * cr.norm() + r.kappa_kept * r.kappa_kept * rr / r.smax.max(1e-300) + r.kappa_kept * ys / r.smax.max(1e-300));
        let diff = (&c.column(s) - &cr).norm();
        if !(diff <= tolc) {
            if fallback_ok(s) {
                g.push(("C01_accepted_by_excess_objective", 1.0));
                continue;
            }
            out.push(f(
                "C01",
                "coefficients-vs-reference",
                format!("rhs {}: coefficients {:?} differ from the reference solution {:?} by {:e} > {:e} (class {:?}, singular values {:?}, threshold {:e})", s, c.column(s).as_slice(), cr.as_slice(), diff, tolc, r.class, svd.s, r.thr),
            ));
            return;
        }
        g.push(("C01_vs_reference", diff / tolc.max(1e-300)));
    }
}

/// C02: residuals are the column-major stacking of W(Y - Phi C) for the reported C
pub fn check_c02_residuals<T: Sc>(r: &Reference, obs: &Obs<T>, out: &mut Vec<Finding>, g: &mut Gauges) {
    let eps = T::EPS;
    if r.class == RankClass::NonFinite || !refla::all_finite(&r.yw) {
        return;
    }
    let (Some(c), Some(res)) = (obs.coef_f64(), obs.res_f64()) else { return };
    if !refla::all_finite(&c) {
        return;
    }
    let n = r.phi_w.nrows();
    let s_ = r.yw.ncols();
    if res.len() != n * s_ {
        out.push(f("C02", "residual-length", format!("residual vector has {} entries, expected N*S = {}", res.len(), n * s_)));
        return;
    }
    let def = &r.yw - &r.phi_w * &c;
    let scale = refla::maxabs(&r.yw) + refla::fro(&r.phi_w) * refla::fro(&c);
    let tol = 16.0 * (r.phi_w.ncols() as f64 + 2.0) * eps * scale;
    let mut worst = 0.0f64;
    let mut at = (0, 0);
    for s in 0..s_ {
        for i in 0..n {
            let d = (res[s * n + i] - def[(i, s)]).abs();
            if d > worst || d.is_nan() {
                worst = d;
                at = (i, s);
            }
        }
    }
    g.push(("C02_residual_identity", worst / tol.max(1e-300)));
    if !(worst <= tol) {
        out.push(f(
            "C02",
            "residuals-not-W(Y-Phi C)",
            format!("residual entry (row {}, rhs {}) = {:e} but W(Y - Phi C) for the reported coefficients = {:e} (|diff| {:e} > {:e}; rank class {:?})", at.0, at.1, res[at.1 * n + at.0], def[at], worst, tol, r.class),
        ));
    }
}

/// C03 for full-column-rank states: reference Kaufman Jacobian and range orthogonality
pub fn check_c03<T: Sc>(spec: &ModelSpec, alpha: &[T], r: &Reference, obs: &Obs<T>, out: &mut Vec<Finding>, g: &mut Gauges) {
    let eps = T::EPS;
    if r.class != RankClass::Full || !refla::all_finite(&r.yw) {
        return;
    }
    let Some(svd) = &r.svd else { return };
    let Some(c) = obs.coef_f64() else { return };
    let Some(jac) = obs.jac_f64() else {
        out.push(f("C03", "jacobian-absent", "residuals are present and every derivative evaluates but jacobian() is None".into()));
        return;
    };
    let n = r.phi_w.nrows();
    let m = r.phi_w.ncols();
    let s_ = r.yw.ncols();
    let p = spec.fam.p();
    if jac.nrows() != n * s_ || jac.ncols() != p {
        out.push(f("C03", "jacobian-shape", format!("jacobian is {}x{}, expected {}x{}", jac.nrows(), jac.ncols(), n * s_, p)));
        return;
    }
    let k_ = 256.0 * (n.max(m) as f64);
    // conditioning limit of the deciding runs
    if k_ * eps * r.kappa_kept > 1e-2 {
        return;
    }
    let phi_f = refla::fro(&r.phi_w);
    for k in 0..p {
        let dk = spec.deriv_ref::<T>(k, alpha);
        let wdk = refla::row_scale(r.w.as_deref(), &dk);
        let x = &wdk * &c; // N x S
        let jref = -svd.proj_perp(&x, 0.0);
        let xs = refla::fro(&x);
        // absolute floor: the subject's arithmetic underflows below the smallest positive (subnormal) number of its type;
        // intermediate products (the derivative of a vanishing tail times a coefficient) may be flushed a few binades above it
        let tiny = if eps > 1e-10 { 1.4e-45 * 1e6 } else { 5e-324 * 1e6 };
        let tol = k_ * eps * r.kappa_kept * xs + tiny;
        let mut worst = 0.0f64;
        let mut at = (0, 0);
        for s in 0..s_ {
            for i in 0..n {
                let d = (jac[(s * n + i, k)] - jref[(i, s)]).abs();
                if d > worst || d.is_nan() {
                    worst = d;
                    at = (i, s);
                }
            }
        }
        g.push(("C03_vs_reference", worst / tol));
        if !(worst <= tol) {
            out.push(f(
                "C03",
                "jacobian-vs-kaufman-reference",
                format!("column {} (row {}, rhs {}): jacobian = {:e}, reference -(I-P) W D_k C = {:e} (|diff| {:e} > {:e})", k, at.0, at.1, jac[(at.1 * n + at.0, k)], jref[at], worst, tol),
            ));
            return;
        }
        // every block of the column is orthogonal to range(W Phi)
        for s in 0..s_ {
            let blk = DVector::from_fn(n, |i, _| jac[(s * n + i, k)]);
            let v = (r.phi_w.transpose() * &blk).amax();
            let tol = k_ * eps * phi_f * x.column(s).norm() * r.kappa_kept.max(1.0) + 1e-300;
            g.push(("C03_range_orthogonality", v / tol));
            if !(v <= tol) {
                out.push(f("C03", "jacobian-not-orthogonal-to-range", format!("column {}, rhs {}: |Phi_w^T J_k| = {:e} > {:e}", k, s, v, tol)));
                return;
            }
        }
    }
}

#[cfg(test)]
mod t {
    use super::*;
    use crate::gen::*;
    use crate::prob::{self, observe, Api};
    use crate::zoo::*;
    use nalgebra::DMatrix;

    fn setup() -> (ModelSpec, Vec<f64>, DMatrix<f64>) {
        let fam = Family::Exp2Off;
        let spec = spec_for(&fam, 9);
        let a = vec![0.75, 3.0];
        let y = crate::gen::col(&data(&spec, 1.0, 2e-2, 1, 3));
        (spec, a, y)
    }
    #[test]
    fn oracles_accept_the_real_problem_and_reject_tampered_values() {
        let (spec, a, y) = setup();
        let p = prob::build(make::<f64>(&spec, Prov::Hand, &a), &y, None, None, Api::Single, false).unwrap();
        let obs = observe(p.as_ref());
        let r = reference::<f64>(&spec, &a, &y, None, f64::EPSILON, false);
        assert_eq!(r.class, RankClass::Full);
        let (mut f, mut g) = (vec![], vec![]);
        check_c01::<f64>(&r, &obs, &mut f, &mut g);
        check_c02_residuals::<f64>(&r, &obs, &mut f, &mut g);
        check_c03::<f64>(&spec, &a, &r, &obs, &mut f, &mut g);
        assert!(f.is_empty(), "{}", f.iter().map(|x| x.detail.clone()).collect::<Vec<_>>().join("; "));
        // tamper: scale one coefficient by (1 + 1e-6)
        let mut bad = obs.clone();
        if let Some((_, _, d)) = bad.coef.as_mut() {
            d[0] = (f64::from_bits(d[0]) * (1.0 + 1e-6)).to_bits();
        }
        let mut f2 = vec![];
        check_c01::<f64>(&r, &bad, &mut f2, &mut g);
        assert!(!f2.is_empty(), "a relative error of 1e-6 in a coefficient must be flagged");
        // tamper: flip the sign of one Jacobian entry
        let mut bad = obs.clone();
        if let Some((_, _, d)) = bad.jac.as_mut() {
            d[3] = (-f64::from_bits(d[3])).to_bits();
        }
        let mut f3 = vec![];
        check_c03::<f64>(&spec, &a, &r, &bad, &mut f3, &mut g);
        assert!(!f3.is_empty());
        // tamper: one residual entry
        let mut bad = obs.clone();
        if let Some(d) = bad.res.as_mut() {
            d[2] = (f64::from_bits(d[2]) + 1e-9).to_bits();
        }
        let mut f4 = vec![];
        check_c02_residuals::<f64>(&r, &bad, &mut f4, &mut g);
        assert!(!f4.is_empty());
    }
    #[test]
    fn duplicate_columns_are_classified_by_the_threshold() {
        let fam = Family::Exp2Off;
        let spec = spec_for(&fam, 9);
        let y = crate::gen::col(&data(&spec, 1.0, 2e-2, 1, 3));
        let a = vec![2.0, 2.0];
        assert_eq!(reference::<f64>(&spec, &a, &y, None, 1e-8, false).class, RankClass::Truncated);
        assert_eq!(reference::<f64>(&spec, &a, &y, None, f64::EPSILON, false).class, RankClass::Ambiguous);
    }
}
