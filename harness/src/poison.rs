//! A global allocator that fills every fresh allocation (and the grown tail of a
//! realloc) with a poison byte chosen by the harness, and overwrites freed blocks
//! with another pattern, so that a result element that was never written shows
//! up deterministically (0xFF.. = NaN for f32/f64) instead of being masked by
//! allocator reuse.  Installed by the binaries that decide "no uninitialised
//! memory" (property C10):   #[global_allocator] static A: Poison = Poison;
use std::alloc::{GlobalAlloc, Layout, System};
use std::sync::atomic::{AtomicU32, Ordering};

/// 0x100 = disabled, otherwise the byte
static POISON: AtomicU32 = AtomicU32::new(0x100);
const FREED: u8 = 0xA5;

pub struct Poison;

pub fn set_poison(b: Option<u8>) {
    POISON.store(b.map(|x| x as u32).unwrap_or(0x100), Ordering::SeqCst);
}

unsafe impl GlobalAlloc for Poison {
    unsafe fn alloc(&self, l: Layout) -> *mut u8 {
        let p = System.alloc(l);
        let b = POISON.load(Ordering::Relaxed);
        if !p.is_null() && b < 0x100 {
            std::ptr::write_bytes(p, b as u8, l.size());
        }
        p
    }
    unsafe fn dealloc(&self, p: *mut u8, l: Layout) {
        if POISON.load(Ordering::Relaxed) < 0x100 {
            std::ptr::write_bytes(p, FREED, l.size());
        }
        System.dealloc(p, l)
    }
    unsafe fn alloc_zeroed(&self, l: Layout) -> *mut u8 {
        System.alloc_zeroed(l)
    }
    unsafe fn realloc(&self, p: *mut u8, l: Layout, new: usize) -> *mut u8 {
        let q = System.realloc(p, l, new);
        let b = POISON.load(Ordering::Relaxed);
        if !q.is_null() && b < 0x100 && new > l.size() {
            std::ptr::write_bytes(q.add(l.size()), b as u8, new - l.size());
        }
        q
    }
}
