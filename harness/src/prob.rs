//! Uniform dynamic view of the four `LevMarProblem` flavours
//! (single / multiple right-hand sides  x  sequential / parallel).
use crate::num::Sc;
use crate::zoo::BM;
use levenberg_marquardt::{LeastSquaresProblem, LevenbergMarquardt};
use nalgebra::{DMatrix, DVector, Dyn};
use varpro::solvers::levmar::{FitResult, LevMarProblem, LevMarProblemBuilder, LevMarSolver};
use varpro::statistics::FitStatistics;
use varpro::util::Weights;

#[derive(Debug, Clone, Copy, PartialEq, Eq, PartialOrd, Ord)]
pub enum Api {
    Single,
    Mrhs,
}
impl Api {
    pub fn name(&self) -> &'static str {
        match self {
            Api::Single => "single",
            Api::Mrhs => "mrhs",
        }
    }
}

pub enum Fr<T: Sc> {
    S(FitResult<BM<T>, false>),
    M(FitResult<BM<T>, true>),
}

/// Result of a fit; the accessors call the real `FitResult` API lazily so that the
/// harness itself makes no model calls the caller did not ask for.
pub struct FitOut<T: Sc> {
    /// whether `fit` returned Ok
    pub ok: bool,
    pub termination: String,
    pub n_eval: usize,
    pub objective: T,
    /// FitResult::was_successful()
    pub was_successful: bool,
    /// minimization_report.termination.was_successful() - the optimizer's own classification
    pub report_successful: bool,
    pub fr: Fr<T>,
}

impl<T: Sc> FitOut<T> {
    pub fn problem(&self) -> &dyn Prob<T> {
        match &self.fr {
            Fr::S(f) => &f.problem,
            Fr::M(f) => &f.problem,
        }
    }
    pub fn into_problem(self) -> Box<dyn Prob<T>> {
        match self.fr {
            Fr::S(f) => Box::new(f.problem),
            Fr::M(f) => Box::new(f.problem),
        }
    }
    /// FitResult::nonlinear_parameters()
    pub fn alpha(&self) -> DVector<T> {
        match &self.fr {
            Fr::S(f) => f.nonlinear_parameters(),
            Fr::M(f) => f.nonlinear_parameters(),
        }
    }
    /// FitResult::linear_coefficients() as M x S
    pub fn coef(&self) -> Option<DMatrix<T>> {
        match &self.fr {
            Fr::S(f) => f.linear_coefficients().map(|c| DMatrix::from_column_slice(c.nrows(), 1, c.clone_owned().as_slice())),
            Fr::M(f) => f.linear_coefficients().map(|c| c.clone_owned()),
        }
    }
    /// FitResult::best_fit() as N x S, and whether the API returned a vector
    pub fn best_fit(&self) -> (Option<DMatrix<T>>, bool) {
        match &self.fr {
            Fr::S(f) => (f.best_fit().map(|v| DMatrix::from_column_slice(v.nrows(), 1, v.as_slice())), true),
            Fr::M(f) => (f.best_fit(), false),
        }
    }
}

pub trait Prob<T: Sc>: Send {
    fn set(&mut self, a: &DVector<T>);
    fn params(&self) -> DVector<T>;
    fn residuals(&self) -> Option<DVector<T>>;
    fn jacobian(&self) -> Option<DMatrix<T>>;
    /// M x S
    fn coefs(&self) -> Option<DMatrix<T>>;
    /// N x S
    fn wdata(&self) -> DMatrix<T>;
    fn weights(&self) -> Weights<T, Dyn>;
    fn model(&self) -> &BM<T>;
    fn clone_box(&self) -> Box<dyn Prob<T>>;
    fn is_par(&self) -> bool;
    fn api(&self) -> Api;
    fn into_sequential(self: Box<Self>) -> Box<dyn Prob<T>>;
    fn fit(self: Box<Self>, solver: LevenbergMarquardt<T>) -> FitOut<T>;
    /// only for Api::Single; statistics are None when fit_with_statistics returned Err
    fn fit_stats(self: Box<Self>, solver: LevenbergMarquardt<T>) -> (FitOut<T>, Option<FitStatistics<BM<T>>>);
}

fn fitout_single<T: Sc>(r: Result<FitResult<BM<T>, false>, FitResult<BM<T>, false>>) -> FitOut<T> {
    let (ok, fr) = match r {
        Ok(f) => (true, f),
        Err(f) => (false, f),
    };
    FitOut {
        ok,
        termination: format!("{:?}", fr.minimization_report.termination),
        n_eval: fr.minimization_report.number_of_evaluations,
        objective: fr.minimization_report.objective_function,
        was_successful: fr.was_successful(),
        report_successful: fr.minimization_report.termination.was_successful(),
        fr: Fr::S(fr),
    }
}
fn fitout_mrhs<T: Sc>(r: Result<FitResult<BM<T>, true>, FitResult<BM<T>, true>>) -> FitOut<T> {
    let (ok, fr) = match r {
        Ok(f) => (true, f),
        Err(f) => (false, f),
    };
    FitOut {
        ok,
        termination: format!("{:?}", fr.minimization_report.termination),
        n_eval: fr.minimization_report.number_of_evaluations,
        objective: fr.minimization_report.objective_function,
        was_successful: fr.was_successful(),
        report_successful: fr.minimization_report.termination.was_successful(),
        fr: Fr::M(fr),
    }
}

macro_rules! impl_prob {
    ($mrhs:tt, $par:tt, $api:expr) => {
        impl<T: Sc> Prob<T> for LevMarProblem<BM<T>, $mrhs, $par> {
            fn set(&mut self, a: &DVector<T>) {
                LeastSquaresProblem::set_params(self, a)
            }
            fn params(&self) -> DVector<T> {
                LeastSquaresProblem::params(self)
            }
            fn residuals(&self) -> Option<DVector<T>> {
                LeastSquaresProblem::residuals(self)
            }
            fn jacobian(&self) -> Option<DMatrix<T>> {
                LeastSquaresProblem::jacobian(self)
            }
            fn coefs(&self) -> Option<DMatrix<T>> {
                self.linear_coefficients().map(|c| DMatrix::from_column_slice(c.nrows(), c.ncols(), c.clone_owned().as_slice()))
            }
            fn wdata(&self) -> DMatrix<T> {
                let d = self.weighted_data();
                DMatrix::from_column_slice(d.nrows(), d.ncols(), d.clone_owned().as_slice())
            }
            fn weights(&self) -> Weights<T, Dyn> {
                LevMarProblem::weights(self).clone()
            }
            fn model(&self) -> &BM<T> {
                LevMarProblem::model(self)
            }
            fn clone_box(&self) -> Box<dyn Prob<T>> {
                Box::new(self.clone())
            }
            fn is_par(&self) -> bool {
                $par
            }
            fn api(&self) -> Api {
                $api
            }
            fn into_sequential(self: Box<Self>) -> Box<dyn Prob<T>> {
                Box::new(LevMarProblem::into_sequential(*self))
            }
            fn fit(self: Box<Self>, solver: LevenbergMarquardt<T>) -> FitOut<T> {
                impl_prob!(@fit $mrhs, self, solver)
            }
            fn fit_stats(self: Box<Self>, solver: LevenbergMarquardt<T>) -> (FitOut<T>, Option<FitStatistics<BM<T>>>) {
                impl_prob!(@stats $mrhs, self, solver)
            }
        }
    };
    (@fit false, $s:ident, $solver:ident) => {
        fitout_single(LevMarSolver::<BM<T>, false>::with_solver($solver).fit(*$s))
    };
    (@fit true, $s:ident, $solver:ident) => {
        fitout_mrhs(LevMarSolver::<BM<T>, true>::with_solver($solver).fit(*$s))
    };
    (@stats false, $s:ident, $solver:ident) => {
        match LevMarSolver::<BM<T>, false>::with_solver($solver).fit_with_statistics(*$s) {
            Ok((fr, st)) => (fitout_single(Ok(fr)), Some(st)),
            Err(fr) => (fitout_single(Err(fr)), None),
        }
    };
    (@stats true, $s:ident, $solver:ident) => {
        { let _ = $solver; panic!("fit_with_statistics is only available for single right hand sides") }
    };
}
impl_prob!(false, false, Api::Single);
impl_prob!(false, true, Api::Single);
impl_prob!(true, false, Api::Mrhs);
impl_prob!(true, true, Api::Mrhs);

#[derive(Debug, Clone, PartialEq)]
pub enum BuildErr {
    YDataMissing,
    InvalidLengthOfData,
    ZeroLengthVector,
    InvalidParameterCount,
    InvalidLengthOfWeights,
}

/// Build a problem through the public builder API.  `y` is N x S; for `Api::Single` S must be 1.
///
/// The order of the builder calls must not matter (C18), so it is varied as a pure function of
/// the inputs (replays reproduce it): with weights, (N + S) mod 3 selects
///   0: observations, weights, epsilon   1: weights, observations, epsilon   2: epsilon, weights, observations
pub fn build<T: Sc>(
    model: BM<T>,
    y: &DMatrix<T>,
    w: Option<&DVector<T>>,
    eps: Option<T>,
    api: Api,
    par: bool,
) -> Result<Box<dyn Prob<T>>, String> {
    let order = if w.is_some() { (y.nrows() + y.ncols()) % 3 } else { 0 };
    macro_rules! finish {
        ($b:expr, $obs:expr) => {{
            let mut b = $b;
            let steps: [u8; 3] = match order {
                0 => [0, 1, 2],
                1 => [1, 0, 2],
                _ => [2, 1, 0],
            };
            for st in steps {
                b = match st {
                    0 => b.observations($obs),
                    1 => match w {
                        Some(w) => b.weights(w.clone()),
                        None => b,
                    },
                    _ => match eps {
                        Some(e) => b.epsilon(e),
                        None => b,
                    },
                };
            }
            match b.build() {
                Ok(p) => Ok(Box::new(p) as Box<dyn Prob<T>>),
                Err(e) => Err(format!("{:?}", e)),
            }
        }};
    }
    match (api, par) {
        (Api::Single, false) => {
            assert_eq!(y.ncols(), 1);
            finish!(LevMarProblemBuilder::new(model), y.column(0).clone_owned())
        }
        (Api::Single, true) => {
            assert_eq!(y.ncols(), 1);
            finish!(LevMarProblemBuilder::new_parallel(model), y.column(0).clone_owned())
        }
        (Api::Mrhs, false) => finish!(LevMarProblemBuilder::mrhs(model), y.clone()),
        (Api::Mrhs, true) => finish!(LevMarProblemBuilder::mrhs_parallel(model), y.clone()),
    }
}

/// like `build`, but the builder receives observations, then provisional weights, then the final weights
pub fn build_reweighted<T: Sc>(model: BM<T>, y: &DMatrix<T>, provisional: &DVector<T>, w: &DVector<T>, eps: Option<T>, api: Api, par: bool) -> Result<Box<dyn Prob<T>>, String> {
    macro_rules! finish {
        ($b:expr) => {{
            let mut b = $b.weights(provisional.clone()).weights(w.clone());
            if let Some(e) = eps {
                b = b.epsilon(e);
            }
            match b.build() {
                Ok(p) => Ok(Box::new(p) as Box<dyn Prob<T>>),
                Err(e) => Err(format!("{:?}", e)),
            }
        }};
    }
    match (api, par) {
        (Api::Single, false) => finish!(LevMarProblemBuilder::new(model).observations(y.column(0).clone_owned())),
        (Api::Single, true) => finish!(LevMarProblemBuilder::new_parallel(model).observations(y.column(0).clone_owned())),
        (Api::Mrhs, false) => finish!(LevMarProblemBuilder::mrhs(model).observations(y.clone())),
        (Api::Mrhs, true) => finish!(LevMarProblemBuilder::mrhs_parallel(model).observations(y.clone())),
    }
}

/// Everything the LeastSquaresProblem interface lets a caller observe.
#[derive(Clone, Debug, PartialEq)]
pub struct Obs<T: Sc> {
    pub params: Vec<u64>,
    pub res: Option<Vec<u64>>,
    pub coef: Option<(usize, usize, Vec<u64>)>,
    pub jac: Option<(usize, usize, Vec<u64>)>,
    pub _t: std::marker::PhantomData<T>,
}

pub fn observe<T: Sc>(p: &dyn Prob<T>) -> Obs<T> {
    Obs {
        params: p.params().iter().map(|v| v.bits()).collect(),
        res: p.residuals().map(|r| r.iter().map(|v| v.bits()).collect()),
        coef: p.coefs().map(|c| (c.nrows(), c.ncols(), c.iter().map(|v| v.bits()).collect())),
        jac: p.jacobian().map(|c| (c.nrows(), c.ncols(), c.iter().map(|v| v.bits()).collect())),
        _t: Default::default(),
    }
}

impl<T: Sc> Obs<T> {
    pub fn key(&self) -> u64 {
        let mut h = crate::num::Fnv::default();
        h.w(self.params.len() as u64);
        for v in &self.params {
            h.w(*v);
        }
        match &self.res {
            None => h.w(0),
            Some(r) => {
                h.w(1);
                h.w(r.len() as u64);
                for v in r {
                    h.w(*v);
                }
            }
        }
        for o in [&self.coef, &self.jac] {
            match o {
                None => h.w(0),
                Some((r, c, d)) => {
                    h.w(1);
                    h.w(*r as u64);
                    h.w(*c as u64);
                    for v in d {
                        h.w(*v);
                    }
                }
            }
        }
        h.0
    }
    pub fn present(&self) -> bool {
        self.res.is_some()
    }
    pub fn res_f64(&self) -> Option<DVector<f64>> {
        self.res.as_ref().map(|r| DVector::from_iterator(r.len(), r.iter().map(|&b| T::from_bits64(b).d())))
    }
    pub fn coef_f64(&self) -> Option<DMatrix<f64>> {
        self.coef.as_ref().map(|(r, c, d)| DMatrix::from_iterator(*r, *c, d.iter().map(|&b| T::from_bits64(b).d())))
    }
    pub fn jac_f64(&self) -> Option<DMatrix<f64>> {
        self.jac.as_ref().map(|(r, c, d)| DMatrix::from_iterator(*r, *c, d.iter().map(|&b| T::from_bits64(b).d())))
    }
    pub fn params_t(&self) -> Vec<T> {
        self.params.iter().map(|&b| T::from_bits64(b)).collect()
    }
}
