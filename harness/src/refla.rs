//! Reference linear algebra in f64, independent of nalgebra's decompositions.
//! Only element access, +, -, *, /, sqrt are used.  One-sided Jacobi SVD
//! (Hestenes) gives small singular values to high relative accuracy, which is
//! what the truncation oracles need.
use nalgebra::{DMatrix, DVector};

pub struct RefSvd {
    /// N x M, orthonormal columns for s_j > 0 (zero column otherwise)
    pub u: DMatrix<f64>,
    /// singular values, not sorted (paired with the columns of u and v)
    pub s: Vec<f64>,
    /// M x M orthogonal
    pub v: DMatrix<f64>,
}

pub fn svd_jacobi(a: &DMatrix<f64>) -> RefSvd {
    // scaled by a power of two close to the largest entry (exact), so that sums of squares of entries of order 1e160 or
    // 1e-160 neither overflow nor underflow; the singular values are scaled back
    let mx = a.iter().fold(0.0f64, |m, v| m.max(v.abs()));
    if mx.is_finite() && mx > 0.0 && !(1e-100..=1e100).contains(&mx) {
        let scale = 2.0f64.powi(mx.log2().floor() as i32);
        let mut r = svd_jacobi_unscaled(&a.map(|v| v / scale));
        for s in r.s.iter_mut() {
            *s *= scale;
        }
        return r;
    }
    svd_jacobi_unscaled(a)
}

fn svd_jacobi_unscaled(a: &DMatrix<f64>) -> RefSvd {
    let n = a.nrows();
    let m = a.ncols();
    let mut w = a.clone();
    let mut v = DMatrix::<f64>::identity(m, m);
    for _sweep in 0..60 {
        let mut rotated = false;
        for p in 0..m {
            for q in (p + 1)..m {
                let mut alpha = 0.0;
                let mut beta = 0.0;
                let mut gamma = 0.0;
                for i in 0..n {
                    alpha += w[(i, p)] * w[(i, p)];
                    beta += w[(i, q)] * w[(i, q)];
                    gamma += w[(i, p)] * w[(i, q)];
                }
                if gamma == 0.0 || gamma.abs() <= 1e-17 * (alpha * beta).sqrt() {
                    continue;
                }
                rotated = true;
                let zeta = (beta - alpha) / (2.0 * gamma);
                let t = zeta.signum() / (zeta.abs() + (1.0 + zeta * zeta).sqrt());
                let t = if zeta == 0.0 { 1.0 } else { t };
                let c = 1.0 / (1.0 + t * t).sqrt();
                let s = c * t;
                for i in 0..n {
                    let wp = w[(i, p)];
                    let wq = w[(i, q)];
                    w[(i, p)] = c * wp - s * wq;
                    w[(i, q)] = s * wp + c * wq;
                }
                for i in 0..m {
                    let vp = v[(i, p)];
                    let vq = v[(i, q)];
                    v[(i, p)] = c * vp - s * vq;
                    v[(i, q)] = s * vp + c * vq;
                }
            }
        }
        if !rotated {
            break;
        }
    }
    let mut s = vec![0.0; m];
    let mut u = DMatrix::<f64>::zeros(n, m);
    for j in 0..m {
        let nn = w.column(j).norm();
        s[j] = nn;
        if nn > 0.0 {
            for i in 0..n {
                u[(i, j)] = w[(i, j)] / nn;
            }
        }
    }
    RefSvd { u, s, v }
}

impl RefSvd {
    pub fn smax(&self) -> f64 {
        self.s.iter().cloned().fold(0.0, f64::max)
    }
    pub fn smin(&self) -> f64 {
        self.s.iter().cloned().fold(f64::INFINITY, f64::min)
    }
    /// condition number restricted to singular values above thr
    pub fn cond_above(&self, thr: f64) -> f64 {
        let mx = self.smax();
        let mn = self
            .s
            .iter()
            .cloned()
            .filter(|&x| x > thr)
            .fold(f64::INFINITY, f64::min);
        mx / mn
    }
    pub fn rank(&self, thr: f64) -> usize {
        self.s.iter().filter(|&&x| x > thr).count()
    }
    /// truncated pseudo-inverse solve: singular values <= thr count as zero
    pub fn solve(&self, b: &DMatrix<f64>, thr: f64) -> DMatrix<f64> {
        let m = self.s.len();
        let mut utb = self.u.transpose() * b; // M x S
        for j in 0..m {
            let f = if self.s[j] > thr { 1.0 / self.s[j] } else { 0.0 };
            for c in 0..utb.ncols() {
                utb[(j, c)] *= f;
            }
        }
        &self.v * utb
    }
    /// orthogonal projector complement applied: (I - U_r U_r^T) x, with U_r the columns with s > thr
    pub fn proj_perp(&self, x: &DMatrix<f64>, thr: f64) -> DMatrix<f64> {
        let mut out = x.clone();
        // two passes of (modified Gram-Schmidt style) projection for accuracy
        for _ in 0..2 {
            for j in 0..self.s.len() {
                if self.s[j] > thr {
                    let uj = self.u.column(j);
                    for c in 0..out.ncols() {
                        let d = uj.dot(&out.column(c));
                        for i in 0..out.nrows() {
                            out[(i, c)] -= d * uj[i];
                        }
                    }
                }
            }
        }
        out
    }
}

/// Gaussian elimination with partial pivoting; returns None when a pivot is exactly zero
pub fn inverse(a: &DMatrix<f64>) -> Option<DMatrix<f64>> {
    let n = a.nrows();
    assert_eq!(n, a.ncols());
    let mut m = a.clone();
    let mut inv = DMatrix::<f64>::identity(n, n);
    for col in 0..n {
        let mut piv = col;
        for r in (col + 1)..n {
            if m[(r, col)].abs() > m[(piv, col)].abs() {
                piv = r;
            }
        }
        if m[(piv, col)] == 0.0 || !m[(piv, col)].is_finite() {
            return None;
        }
        if piv != col {
            m.swap_rows(piv, col);
            inv.swap_rows(piv, col);
        }
        let p = m[(col, col)];
        for j in 0..n {
            m[(col, j)] /= p;
            inv[(col, j)] /= p;
        }
        for r in 0..n {
            if r != col {
                let f = m[(r, col)];
                if f != 0.0 {
                    for j in 0..n {
                        let a = m[(col, j)];
                        let b = inv[(col, j)];
                        m[(r, j)] -= f * a;
                        inv[(r, j)] -= f * b;
                    }
                }
            }
        }
    }
    Some(inv)
}

/// symmetric eigenvalues by cyclic Jacobi (for condition numbers of H^T H)
pub fn sym_eigvals(a: &DMatrix<f64>) -> Vec<f64> {
    let n = a.nrows();
    let mut m = a.clone();
    for _ in 0..100 {
        let mut off = 0.0;
        for p in 0..n {
            for q in (p + 1)..n {
                off += m[(p, q)] * m[(p, q)];
            }
        }
        if off == 0.0 {
            break;
        }
        for p in 0..n {
            for q in (p + 1)..n {
                if m[(p, q)] == 0.0 {
                    continue;
                }
                let theta = (m[(q, q)] - m[(p, p)]) / (2.0 * m[(p, q)]);
                let t = if theta == 0.0 {
                    1.0
                } else {
                    theta.signum() / (theta.abs() + (1.0 + theta * theta).sqrt())
                };
                let c = 1.0 / (1.0 + t * t).sqrt();
                let s = t * c;
                for k in 0..n {
                    let kp = m[(k, p)];
                    let kq = m[(k, q)];
                    m[(k, p)] = c * kp - s * kq;
                    m[(k, q)] = s * kp + c * kq;
                }
                for k in 0..n {
                    let pk = m[(p, k)];
                    let qk = m[(q, k)];
                    m[(p, k)] = c * pk - s * qk;
                    m[(q, k)] = s * pk + c * qk;
                }
            }
        }
    }
    (0..n).map(|i| m[(i, i)]).collect()
}

pub fn fro(a: &DMatrix<f64>) -> f64 {
    a.iter().map(|v| v * v).sum::<f64>().sqrt()
}
pub fn maxabs(a: &DMatrix<f64>) -> f64 {
    a.iter().fold(0.0, |m, v| f64::max(m, v.abs()))
}
pub fn vmaxabs(a: &DVector<f64>) -> f64 {
    a.iter().fold(0.0, |m, v| f64::max(m, v.abs()))
}
pub fn all_finite(a: &DMatrix<f64>) -> bool {
    a.iter().all(|v| v.is_finite())
}

/// row scaling W*A
pub fn row_scale(w: Option<&[f64]>, a: &DMatrix<f64>) -> DMatrix<f64> {
    match w {
        None => a.clone(),
        Some(w) => {
            let mut o = a.clone();
            for i in 0..o.nrows() {
                for j in 0..o.ncols() {
                    o[(i, j)] *= w[i];
                }
            }
            o
        }
    }
}

#[cfg(test)]
mod t {
    use super::*;
    #[test]
    fn jacobi_svd_reconstructs() {
        let a = DMatrix::from_row_slice(4, 3, &[1., 2., 3., 4., 5., 6.5, 7., 8., 9., 1., 0., -1.]);
        let s = svd_jacobi(&a);
        let rec = &s.u * DMatrix::from_diagonal(&DVector::from_vec(s.s.clone())) * s.v.transpose();
        assert!(maxabs(&(rec - &a)) < 1e-13);
        let utu = s.u.transpose() * &s.u;
        assert!(maxabs(&(utu - DMatrix::identity(3, 3))) < 1e-13);
    }
    #[test]
    fn duplicate_columns_min_norm() {
        let a = DMatrix::from_row_slice(3, 2, &[1., 1., 2., 2., 3., 3.]);
        let s = svd_jacobi(&a);
        assert_eq!(s.rank(1e-8), 1);
        let b = DMatrix::from_row_slice(3, 1, &[2., 4., 6.]);
        let c = s.solve(&b, 1e-8);
        assert!((c[(0, 0)] - 1.0).abs() < 1e-14 && (c[(1, 0)] - 1.0).abs() < 1e-14);
    }
    #[test]
    fn inverse_ok() {
        let a = DMatrix::from_row_slice(3, 3, &[4., 1., 0., 1., 3., 1., 0., 1., 2.]);
        let i = inverse(&a).unwrap();
        assert!(maxabs(&(&a * i - DMatrix::identity(3, 3))) < 1e-14);
        let ev = sym_eigvals(&a);
        let tr: f64 = ev.iter().sum();
        assert!((tr - 9.0).abs() < 1e-12);
    }
}
