//! Worker-side plumbing shared by all engines: argument parsing, static
//! sharding, an in-process watchdog that turns a hang of the subject into a
//! reported case, silent panics, and the JSON result that the driver merges.
use serde_json::{json, Map, Value};
use std::collections::BTreeMap;
use std::sync::atomic::{AtomicU64, Ordering};
use std::sync::{Arc, Mutex};
use std::time::{Duration, Instant};

#[derive(Debug, Clone)]
pub struct Args {
    pub tier: String,
    pub shard: usize,
    pub nshards: usize,
    /// resume: skip cases with index < start (cases are numbered globally per engine run)
    pub start: u64,
    pub replay: Option<String>,
    pub property: String,
    pub hang_secs: u64,
    pub extra: BTreeMap<String, String>,
}

impl Args {
    pub fn parse() -> Args {
        let mut a = Args {
            tier: "quick".into(),
            shard: 0,
            nshards: 1,
            start: 0,
            replay: None,
            property: String::new(),
            hang_secs: 10,
            extra: BTreeMap::new(),
        };
        let v: Vec<String> = std::env::args().skip(1).collect();
        let mut i = 0;
        while i < v.len() {
            let k = v[i].as_str();
            let val = v.get(i + 1).cloned().unwrap_or_default();
            match k {
                "--tier" => a.tier = val,
                "--shard" => {
                    let mut it = val.split('/');
                    a.shard = it.next().unwrap().parse().unwrap();
                    a.nshards = it.next().unwrap().parse().unwrap();
                }
                "--start" => a.start = val.parse().unwrap(),
                "--replay" => a.replay = Some(val),
                "--property" => a.property = val,
                "--hang-secs" => a.hang_secs = val.parse().unwrap(),
                _ => {
                    if let Some(name) = k.strip_prefix("--") {
                        a.extra.insert(name.to_string(), val);
                    } else {
                        panic!("bad argument {}", k);
                    }
                }
            }
            i += 2;
        }
        a
    }
    pub fn thorough(&self) -> bool {
        self.tier == "thorough"
    }
    pub fn mine(&self, idx: u64) -> bool {
        idx >= self.start && (idx as usize) % self.nshards == self.shard
    }
}

#[derive(Debug, Clone)]
pub struct Violation {
    pub property: String,
    /// short stable signature of the failing class (used for known-finding matching)
    pub signature: String,
    /// everything needed to re-run exactly this case
    pub case: Value,
    pub detail: String,
}

#[derive(Default)]
pub struct Stats {
    pub counters: BTreeMap<String, u64>,
    /// histogram name -> bucket -> count
    pub hist: BTreeMap<String, BTreeMap<String, u64>>,
    pub samples: Vec<Value>,
    pub violations: Vec<Violation>,
    pub violation_count: u64,
    pub notes: Vec<String>,
    /// max-type gauges (e.g. worst observed tolerance ratio)
    pub maxes: BTreeMap<String, f64>,
}

impl Stats {
    pub fn inc(&mut self, k: &str) {
        *self.counters.entry(k.to_string()).or_insert(0) += 1;
    }
    pub fn add(&mut self, k: &str, n: u64) {
        *self.counters.entry(k.to_string()).or_insert(0) += n;
    }
    pub fn bucket(&mut self, h: &str, b: &str) {
        *self.hist.entry(h.to_string()).or_default().entry(b.to_string()).or_insert(0) += 1;
    }
    pub fn max(&mut self, k: &str, v: f64) {
        let e = self.maxes.entry(k.to_string()).or_insert(0.0);
        if v > *e || v.is_nan() {
            *e = v;
        }
    }
    pub fn sample(&mut self, v: Value) {
        if self.samples.len() < 6 {
            self.samples.push(v);
        }
    }
    pub fn violate(&mut self, property: &str, signature: &str, case: Value, detail: String) {
        self.violation_count += 1;
        // keep the first few of every signature
        let same = self.violations.iter().filter(|v| v.signature == signature && v.property == property).count();
        if same < 3 && self.violations.len() < 60 {
            self.violations.push(Violation { property: property.into(), signature: signature.into(), case, detail });
        }
        *self
            .hist
            .entry("violations_by_signature".into())
            .or_default()
            .entry(format!("{}:{}", property, signature))
            .or_insert(0) += 1;
    }
    pub fn to_json(&self) -> Value {
        let mut m = Map::new();
        m.insert("counters".into(), json!(self.counters));
        m.insert("hist".into(), json!(self.hist));
        m.insert("maxes".into(), json!(self.maxes));
        m.insert("samples".into(), Value::Array(self.samples.clone()));
        m.insert("notes".into(), json!(self.notes));
        m.insert("violation_count".into(), json!(self.violation_count));
        m.insert(
            "violations".into(),
            Value::Array(
                self.violations
                    .iter()
                    .map(|v| json!({"property": v.property, "signature": v.signature, "case": v.case, "detail": v.detail}))
                    .collect(),
            ),
        );
        Value::Object(m)
    }
}

/// Shared between the engine thread and the watchdog thread.
pub struct Ctx {
    pub args: Args,
    pub stats: Mutex<Stats>,
    pub current_case: AtomicU64,
    pub current_desc: Mutex<Value>,
    pub beat: AtomicU64,
    pub started: Instant,
}

pub const EXIT_HANG: i32 = 3;

impl Ctx {
    pub fn new(args: Args) -> Arc<Ctx> {
        Arc::new(Ctx {
            args,
            stats: Mutex::new(Stats::default()),
            current_case: AtomicU64::new(u64::MAX),
            current_desc: Mutex::new(Value::Null),
            beat: AtomicU64::new(0),
            started: Instant::now(),
        })
    }
    /// announce that case `idx` starts (its description is only stored when `desc` is cheap)
    #[inline]
    pub fn begin(&self, idx: u64) {
        self.current_case.store(idx, Ordering::SeqCst);
        self.beat.fetch_add(1, Ordering::SeqCst);
    }
    pub fn begin_desc(&self, idx: u64, desc: Value) {
        *self.current_desc.lock().unwrap() = desc;
        self.begin(idx);
    }
    #[inline]
    pub fn tick(&self) {
        self.beat.fetch_add(1, Ordering::Relaxed);
    }
    pub fn with<R>(&self, f: impl FnOnce(&mut Stats) -> R) -> R {
        let mut g = self.stats.lock().unwrap();
        f(&mut g)
    }
    pub fn emit(&self, status: &str, hang: Option<Value>) {
        let st = self.stats.lock().unwrap_or_else(|e| e.into_inner());
        let out = json!({
            "status": status,
            "shard": self.args.shard,
            "nshards": self.args.nshards,
            "start": self.args.start,
            "hang": hang,
            "wall_s": self.started.elapsed().as_secs_f64(),
            "stats": st.to_json(),
        });
        println!("{}", out);
    }
}

/// Start the watchdog: if the heartbeat does not move for `hang_secs`, the
/// partial statistics and the hanging case are printed and the process exits
/// with EXIT_HANG; the driver restarts the shard after that case.
pub fn spawn_watchdog(ctx: Arc<Ctx>) {
    let secs = ctx.args.hang_secs;
    std::thread::spawn(move || {
        let mut last = ctx.beat.load(Ordering::SeqCst);
        let mut since = Instant::now();
        loop {
            std::thread::sleep(Duration::from_millis(250));
            let now = ctx.beat.load(Ordering::SeqCst);
            if now != last {
                last = now;
                since = Instant::now();
            } else if since.elapsed() >= Duration::from_secs(secs) {
                let idx = ctx.current_case.load(Ordering::SeqCst);
                let desc = ctx.current_desc.lock().map(|d| d.clone()).unwrap_or(Value::Null);
                ctx.emit("hang", Some(json!({"case_index": idx, "desc": desc, "silent_for_s": secs})));
                std::process::exit(EXIT_HANG);
            }
        }
    });
}

pub fn silence_panics() {
    std::panic::set_hook(Box::new(|_| {}));
}

/// run `f`, mapping a panic to Err(message)
pub fn guarded<R>(f: impl FnOnce() -> R) -> Result<R, String> {
    match std::panic::catch_unwind(std::panic::AssertUnwindSafe(f)) {
        Ok(r) => Ok(r),
        Err(e) => {
            let msg = if let Some(s) = e.downcast_ref::<&str>() {
                s.to_string()
            } else if let Some(s) = e.downcast_ref::<String>() {
                s.clone()
            } else {
                "panic".to_string()
            };
            Err(msg)
        }
    }
}

/// Standard main wrapper for an engine binary.
pub fn engine_main(name: &str, body: impl FnOnce(Arc<Ctx>)) {
    let args = Args::parse();
    silence_panics();
    let ctx = Ctx::new(args);
    spawn_watchdog(ctx.clone());
    let c2 = ctx.clone();
    match guarded(move || body(c2)) {
        Ok(()) => ctx.emit("done", None),
        Err(msg) => {
            // a panic of the *harness* (not of the guarded subject) is a machinery error
            eprintln!("engine {} crashed: {}", name, msg);
            ctx.emit("crashed", Some(json!({"message": msg, "case_index": ctx.current_case.load(Ordering::SeqCst)})));
            std::process::exit(4);
        }
    }
}

/// mixed-radix counter helper
pub fn product_index(mut idx: u64, radices: &[usize]) -> Vec<usize> {
    let mut out = vec![0; radices.len()];
    for (i, r) in radices.iter().enumerate().rev() {
        out[i] = (idx % *r as u64) as usize;
        idx /= *r as u64;
    }
    out
}
pub fn product_size(radices: &[usize]) -> u64 {
    radices.iter().map(|&r| r as u64).product()
}
