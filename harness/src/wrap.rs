//! Model wrappers: call recording, fault injection, row scaling, domain guards.
use crate::num::Sc;
use crate::zoo::{DynModel, MErr, BM};
use nalgebra::{DVector, Dyn, OMatrix, OVector};
use std::sync::atomic::{AtomicU64, Ordering};
use std::sync::{Arc, Mutex};
use varpro::prelude::SeparableNonlinearModel;

#[derive(Debug, Clone, PartialEq)]
pub enum Call {
    SetParams(Vec<u64>),
    Eval,
    Deriv(usize),
}
impl Call {
    pub fn kind(&self) -> &'static str {
        match self {
            Call::SetParams(_) => "set_params",
            Call::Eval => "eval",
            Call::Deriv(_) => "deriv",
        }
    }
}

#[derive(Default)]
pub struct Log {
    pub calls: Mutex<Vec<Call>>,
    pub count: AtomicU64,
}
impl Log {
    pub fn len(&self) -> u64 {
        self.count.load(Ordering::SeqCst)
    }
    pub fn snapshot(&self) -> Vec<Call> {
        self.calls.lock().unwrap().clone()
    }
}

/// Records every model call in a log shared by all clones.
pub struct Recording<T: Sc> {
    pub inner: BM<T>,
    pub log: Arc<Log>,
    pub keep_calls: bool,
}
impl<T: Sc> Recording<T> {
    pub fn wrap(inner: BM<T>, keep_calls: bool) -> (BM<T>, Arc<Log>) {
        let log = Arc::new(Log::default());
        (BM(Box::new(Recording { inner, log: log.clone(), keep_calls })), log)
    }
    fn rec(&self, c: Call) {
        self.log.count.fetch_add(1, Ordering::SeqCst);
        if self.keep_calls {
            self.log.calls.lock().unwrap().push(c);
        }
    }
}
impl<T: Sc> SeparableNonlinearModel for Recording<T> {
    type ScalarType = T;
    type Error = MErr;
    fn parameter_count(&self) -> usize {
        self.inner.parameter_count()
    }
    fn base_function_count(&self) -> usize {
        self.inner.base_function_count()
    }
    fn output_len(&self) -> usize {
        self.inner.output_len()
    }
    fn set_params(&mut self, p: OVector<T, Dyn>) -> Result<(), MErr> {
        self.rec(Call::SetParams(p.iter().map(|v| v.bits()).collect()));
        self.inner.set_params(p)
    }
    fn params(&self) -> OVector<T, Dyn> {
        self.inner.params()
    }
    fn eval(&self) -> Result<OMatrix<T, Dyn, Dyn>, MErr> {
        self.rec(Call::Eval);
        self.inner.eval()
    }
    fn eval_partial_deriv(&self, k: usize) -> Result<OMatrix<T, Dyn, Dyn>, MErr> {
        self.rec(Call::Deriv(k));
        self.inner.eval_partial_deriv(k)
    }
}
impl<T: Sc> DynModel<T> for Recording<T> {
    fn clone_box(&self) -> Box<dyn DynModel<T>> {
        Box::new(Recording { inner: self.inner.clone(), log: self.log.clone(), keep_calls: self.keep_calls })
    }
}

#[derive(Debug, Clone, Copy, PartialEq, Eq)]
pub enum FaultMode {
    /// only the call with index k fails
    Transient,
    /// every call with index >= k fails
    Persistent,
}
#[derive(Debug, Clone, Copy, PartialEq, Eq)]
pub enum OnFailedSet {
    /// the model keeps its previous parameters when set_params fails
    Keep,
    /// the model stores the new parameters although it reports an error
    Store,
}

pub struct FaultPlan {
    pub at: u64,
    pub mode: FaultMode,
    pub on_failed_set: OnFailedSet,
    pub counter: AtomicU64,
    /// what failed (call index, kind) in order
    pub fired: Mutex<Vec<(u64, &'static str)>>,
}
impl FaultPlan {
    pub fn new(at: u64, mode: FaultMode, on_failed_set: OnFailedSet) -> Arc<Self> {
        Arc::new(Self { at, mode, on_failed_set, counter: AtomicU64::new(0), fired: Mutex::new(vec![]) })
    }
    pub fn never() -> Arc<Self> {
        Self::new(u64::MAX, FaultMode::Transient, OnFailedSet::Keep)
    }
    fn tick(&self, kind: &'static str) -> Result<(), MErr> {
        let i = self.counter.fetch_add(1, Ordering::SeqCst);
        let fail = match self.mode {
            FaultMode::Transient => i == self.at,
            FaultMode::Persistent => i >= self.at,
        };
        if fail {
            self.fired.lock().unwrap().push((i, kind));
            Err(MErr::Injected(i))
        } else {
            Ok(())
        }
    }
    pub fn calls(&self) -> u64 {
        self.counter.load(Ordering::SeqCst)
    }
    pub fn fired(&self) -> Vec<(u64, &'static str)> {
        self.fired.lock().unwrap().clone()
    }
}

/// Fails the model call with global index `at` (shared counter across clones).
pub struct Faulty<T: Sc> {
    pub inner: BM<T>,
    pub plan: Arc<FaultPlan>,
}
impl<T: Sc> Faulty<T> {
    pub fn wrap(inner: BM<T>, plan: Arc<FaultPlan>) -> BM<T> {
        BM(Box::new(Faulty { inner, plan }))
    }
}
impl<T: Sc> SeparableNonlinearModel for Faulty<T> {
    type ScalarType = T;
    type Error = MErr;
    fn parameter_count(&self) -> usize {
        self.inner.parameter_count()
    }
    fn base_function_count(&self) -> usize {
        self.inner.base_function_count()
    }
    fn output_len(&self) -> usize {
        self.inner.output_len()
    }
    fn set_params(&mut self, p: OVector<T, Dyn>) -> Result<(), MErr> {
        match self.plan.tick("set_params") {
            Ok(()) => self.inner.set_params(p),
            Err(e) => {
                if self.plan.on_failed_set == OnFailedSet::Store {
                    let _ = self.inner.set_params(p);
                }
                Err(e)
            }
        }
    }
    fn params(&self) -> OVector<T, Dyn> {
        self.inner.params()
    }
    fn eval(&self) -> Result<OMatrix<T, Dyn, Dyn>, MErr> {
        self.plan.tick("eval")?;
        self.inner.eval()
    }
    fn eval_partial_deriv(&self, k: usize) -> Result<OMatrix<T, Dyn, Dyn>, MErr> {
        self.plan.tick("deriv")?;
        self.inner.eval_partial_deriv(k)
    }
}
impl<T: Sc> DynModel<T> for Faulty<T> {
    fn clone_box(&self) -> Box<dyn DynModel<T>> {
        Box::new(Faulty { inner: self.inner.clone(), plan: self.plan.clone() })
    }
}

/// A model with a domain: parameter vectors for which `reject` holds make
/// `set_params` (RejectAt::Set) or `eval`/derivatives (RejectAt::Eval) fail.
/// This is the "model rejects tau <= 0" pattern of real user models.
#[derive(Debug, Clone, Copy, PartialEq, Eq)]
pub enum RejectAt {
    Set,
    Eval,
    Deriv,
}
pub struct Domain<T: Sc> {
    pub inner: BM<T>,
    pub at: RejectAt,
    /// parameter index and threshold: reject when a[idx] <= thr
    pub idx: usize,
    pub thr: f64,
}
impl<T: Sc> Domain<T> {
    pub fn wrap(inner: BM<T>, at: RejectAt, idx: usize, thr: f64) -> BM<T> {
        BM(Box::new(Domain { inner, at, idx, thr }))
    }
    fn bad(&self, p: &DVector<T>) -> bool {
        !(p[self.idx].d() > self.thr)
    }
}
impl<T: Sc> SeparableNonlinearModel for Domain<T> {
    type ScalarType = T;
    type Error = MErr;
    fn parameter_count(&self) -> usize {
        self.inner.parameter_count()
    }
    fn base_function_count(&self) -> usize {
        self.inner.base_function_count()
    }
    fn output_len(&self) -> usize {
        self.inner.output_len()
    }
    fn set_params(&mut self, p: OVector<T, Dyn>) -> Result<(), MErr> {
        if self.at == RejectAt::Set && p.len() > self.idx && self.bad(&p) {
            return Err(MErr::Domain);
        }
        self.inner.set_params(p)
    }
    fn params(&self) -> OVector<T, Dyn> {
        self.inner.params()
    }
    fn eval(&self) -> Result<OMatrix<T, Dyn, Dyn>, MErr> {
        if self.at == RejectAt::Eval && self.bad(&self.inner.params()) {
            return Err(MErr::Domain);
        }
        self.inner.eval()
    }
    fn eval_partial_deriv(&self, k: usize) -> Result<OMatrix<T, Dyn, Dyn>, MErr> {
        if self.at == RejectAt::Deriv && self.bad(&self.inner.params()) {
            return Err(MErr::Domain);
        }
        self.inner.eval_partial_deriv(k)
    }
}
impl<T: Sc> DynModel<T> for Domain<T> {
    fn clone_box(&self) -> Box<dyn DynModel<T>> {
        Box::new(Domain { inner: self.inner.clone(), at: self.at, idx: self.idx, thr: self.thr })
    }
}

/// Multiplies row i of the basis matrix and of every derivative by w_i,
/// with one multiplication in T per element (property C06).
pub struct RowScaled<T: Sc> {
    pub inner: BM<T>,
    pub w: DVector<T>,
}
impl<T: Sc> RowScaled<T> {
    pub fn wrap(inner: BM<T>, w: DVector<T>) -> BM<T> {
        BM(Box::new(RowScaled { inner, w }))
    }
    fn scale(&self, mut m: OMatrix<T, Dyn, Dyn>) -> OMatrix<T, Dyn, Dyn> {
        for j in 0..m.ncols() {
            for i in 0..m.nrows() {
                m[(i, j)] = m[(i, j)] * self.w[i];
            }
        }
        m
    }
}
impl<T: Sc> SeparableNonlinearModel for RowScaled<T> {
    type ScalarType = T;
    type Error = MErr;
    fn parameter_count(&self) -> usize {
        self.inner.parameter_count()
    }
    fn base_function_count(&self) -> usize {
        self.inner.base_function_count()
    }
    fn output_len(&self) -> usize {
        self.inner.output_len()
    }
    fn set_params(&mut self, p: OVector<T, Dyn>) -> Result<(), MErr> {
        self.inner.set_params(p)
    }
    fn params(&self) -> OVector<T, Dyn> {
        self.inner.params()
    }
    fn eval(&self) -> Result<OMatrix<T, Dyn, Dyn>, MErr> {
        self.inner.eval().map(|m| self.scale(m))
    }
    fn eval_partial_deriv(&self, k: usize) -> Result<OMatrix<T, Dyn, Dyn>, MErr> {
        self.inner.eval_partial_deriv(k).map(|m| self.scale(m))
    }
}
impl<T: Sc> DynModel<T> for RowScaled<T> {
    fn clone_box(&self) -> Box<dyn DynModel<T>> {
        Box::new(RowScaled { inner: self.inner.clone(), w: self.w.clone() })
    }
}

/// Deletes a set of rows from the model output (for the zero-weight oracle of C06).
pub struct RowsDeleted<T: Sc> {
    pub inner: BM<T>,
    pub keep: Vec<usize>,
}
impl<T: Sc> RowsDeleted<T> {
    pub fn wrap(inner: BM<T>, keep: Vec<usize>) -> BM<T> {
        BM(Box::new(RowsDeleted { inner, keep }))
    }
    fn sel(&self, m: OMatrix<T, Dyn, Dyn>) -> OMatrix<T, Dyn, Dyn> {
        OMatrix::<T, Dyn, Dyn>::from_fn(self.keep.len(), m.ncols(), |i, j| m[(self.keep[i], j)])
    }
}
impl<T: Sc> SeparableNonlinearModel for RowsDeleted<T> {
    type ScalarType = T;
    type Error = MErr;
    fn parameter_count(&self) -> usize {
        self.inner.parameter_count()
    }
    fn base_function_count(&self) -> usize {
        self.inner.base_function_count()
    }
    fn output_len(&self) -> usize {
        self.keep.len()
    }
    fn set_params(&mut self, p: OVector<T, Dyn>) -> Result<(), MErr> {
        self.inner.set_params(p)
    }
    fn params(&self) -> OVector<T, Dyn> {
        self.inner.params()
    }
    fn eval(&self) -> Result<OMatrix<T, Dyn, Dyn>, MErr> {
        self.inner.eval().map(|m| self.sel(m))
    }
    fn eval_partial_deriv(&self, k: usize) -> Result<OMatrix<T, Dyn, Dyn>, MErr> {
        self.inner.eval_partial_deriv(k).map(|m| self.sel(m))
    }
}
impl<T: Sc> DynModel<T> for RowsDeleted<T> {
    fn clone_box(&self) -> Box<dyn DynModel<T>> {
        Box::new(RowsDeleted { inner: self.inner.clone(), keep: self.keep.clone() })
    }
}

/// Replaces one element of the basis matrix (`deriv == None`) or of one derivative matrix by a
/// fixed value: lets the enumerator put IEEE special values directly into Phi or dPhi/dalpha_k.
#[derive(Clone)]
pub struct Tamper<T: Sc> {
    pub inner: BM<T>,
    pub deriv: Option<usize>,
    pub i: usize,
    pub j: usize,
    pub value: T,
}
impl<T: Sc> Tamper<T> {
    pub fn wrap(inner: BM<T>, deriv: Option<usize>, i: usize, j: usize, value: T) -> BM<T> {
        BM(Box::new(Tamper { inner, deriv, i, j, value }))
    }
}
impl<T: Sc> SeparableNonlinearModel for Tamper<T> {
    type ScalarType = T;
    type Error = MErr;
    fn parameter_count(&self) -> usize {
        self.inner.parameter_count()
    }
    fn base_function_count(&self) -> usize {
        self.inner.base_function_count()
    }
    fn output_len(&self) -> usize {
        self.inner.output_len()
    }
    fn set_params(&mut self, p: OVector<T, Dyn>) -> Result<(), MErr> {
        self.inner.set_params(p)
    }
    fn params(&self) -> OVector<T, Dyn> {
        self.inner.params()
    }
    fn eval(&self) -> Result<OMatrix<T, Dyn, Dyn>, MErr> {
        let mut m = self.inner.eval()?;
        if self.deriv.is_none() && self.i < m.nrows() && self.j < m.ncols() {
            m[(self.i, self.j)] = self.value;
        }
        Ok(m)
    }
    fn eval_partial_deriv(&self, k: usize) -> Result<OMatrix<T, Dyn, Dyn>, MErr> {
        let mut m = self.inner.eval_partial_deriv(k)?;
        if self.deriv == Some(k) && self.i < m.nrows() && self.j < m.ncols() {
            m[(self.i, self.j)] = self.value;
        }
        Ok(m)
    }
}
impl<T: Sc> DynModel<T> for Tamper<T> {
    fn clone_box(&self) -> Box<dyn DynModel<T>> {
        Box::new(self.clone())
    }
}

/// Counts the model calls that returned an error (shared by clones).
pub struct ErrCounter<T: Sc> {
    pub inner: BM<T>,
    pub errs: Arc<AtomicU64>,
}
impl<T: Sc> ErrCounter<T> {
    pub fn wrap(inner: BM<T>) -> (BM<T>, Arc<AtomicU64>) {
        let errs = Arc::new(AtomicU64::new(0));
        (BM(Box::new(ErrCounter { inner, errs: errs.clone() })), errs)
    }
    fn note<R>(&self, r: Result<R, MErr>) -> Result<R, MErr> {
        if r.is_err() {
            self.errs.fetch_add(1, Ordering::SeqCst);
        }
        r
    }
}
impl<T: Sc> SeparableNonlinearModel for ErrCounter<T> {
    type ScalarType = T;
    type Error = MErr;
    fn parameter_count(&self) -> usize {
        self.inner.parameter_count()
    }
    fn base_function_count(&self) -> usize {
        self.inner.base_function_count()
    }
    fn output_len(&self) -> usize {
        self.inner.output_len()
    }
    fn set_params(&mut self, p: OVector<T, Dyn>) -> Result<(), MErr> {
        let r = self.inner.set_params(p);
        self.note(r)
    }
    fn params(&self) -> OVector<T, Dyn> {
        self.inner.params()
    }
    fn eval(&self) -> Result<OMatrix<T, Dyn, Dyn>, MErr> {
        self.note(self.inner.eval())
    }
    fn eval_partial_deriv(&self, k: usize) -> Result<OMatrix<T, Dyn, Dyn>, MErr> {
        self.note(self.inner.eval_partial_deriv(k))
    }
}
impl<T: Sc> DynModel<T> for ErrCounter<T> {
    fn clone_box(&self) -> Box<dyn DynModel<T>> {
        Box::new(ErrCounter { inner: self.inner.clone(), errs: self.errs.clone() })
    }
}

/// A model written like the "caching" example of the rustdoc: `set_params` stores the parameters FIRST, may then
/// fail (injected), and only afterwards precomputes the basis and derivative matrices that `eval` /
/// `eval_partial_deriv` return.  After a failed `set_params` it reports the new parameters while its matrices still
/// belong to the previous point - legal for a user model, and exactly the situation in which a caller must ask it again.
pub struct Precomputing<T: Sc> {
    pub inner: BM<T>,
    pub plan: Arc<FaultPlan>,
    pub params: OVector<T, Dyn>,
    pub phi: Option<OMatrix<T, Dyn, Dyn>>,
    pub dphi: Vec<Option<OMatrix<T, Dyn, Dyn>>>,
}
impl<T: Sc> Precomputing<T> {
    pub fn wrap(inner: BM<T>, plan: Arc<FaultPlan>) -> BM<T> {
        let params = inner.params();
        let phi = inner.eval().ok();
        let dphi = (0..inner.parameter_count()).map(|k| inner.eval_partial_deriv(k).ok()).collect();
        BM(Box::new(Precomputing { inner, plan, params, phi, dphi }))
    }
}
impl<T: Sc> SeparableNonlinearModel for Precomputing<T> {
    type ScalarType = T;
    type Error = MErr;
    fn parameter_count(&self) -> usize {
        self.inner.parameter_count()
    }
    fn base_function_count(&self) -> usize {
        self.inner.base_function_count()
    }
    fn output_len(&self) -> usize {
        self.inner.output_len()
    }
    fn set_params(&mut self, p: OVector<T, Dyn>) -> Result<(), MErr> {
        if p.len() != self.inner.parameter_count() {
            return Err(MErr::Model("wrong parameter count".into()));
        }
        self.params = p.clone();
        self.plan.tick("set_params")?;
        self.inner.set_params(p)?;
        self.phi = self.inner.eval().ok();
        self.dphi = (0..self.inner.parameter_count()).map(|k| self.inner.eval_partial_deriv(k).ok()).collect();
        Ok(())
    }
    fn params(&self) -> OVector<T, Dyn> {
        self.params.clone()
    }
    fn eval(&self) -> Result<OMatrix<T, Dyn, Dyn>, MErr> {
        self.plan.tick("eval")?;
        self.phi.clone().ok_or(MErr::Domain)
    }
    fn eval_partial_deriv(&self, k: usize) -> Result<OMatrix<T, Dyn, Dyn>, MErr> {
        self.plan.tick("deriv")?;
        self.dphi.get(k).cloned().flatten().ok_or(MErr::Domain)
    }
}
impl<T: Sc> DynModel<T> for Precomputing<T> {
    fn clone_box(&self) -> Box<dyn DynModel<T>> {
        Box::new(Precomputing { inner: self.inner.clone(), plan: self.plan.clone(), params: self.params.clone(), phi: self.phi.clone(), dphi: self.dphi.clone() })
    }
}
