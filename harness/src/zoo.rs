//! Model zoo.  Every family is described by per-element functions `phi` /
//! `dphi`, used verbatim by the hand-written model (`Hand`) and by the closures
//! handed to `SeparableModelBuilder` (`Built`), so the two provenances perform
//! the same floating-point operations and can be compared bitwise.
use crate::num::Sc;
use nalgebra::{DMatrix, DVector, Dyn, OMatrix, OVector};
use std::sync::Arc;
use varpro::model::builder::SeparableModelBuilder;
use varpro::model::SeparableModel;
use varpro::prelude::SeparableNonlinearModel;

#[derive(Debug, Clone, PartialEq)]
pub enum MErr {
    Injected(u64),
    Model(String),
    Domain,
}
impl std::fmt::Display for MErr {
    fn fmt(&self, f: &mut std::fmt::Formatter<'_>) -> std::fmt::Result {
        write!(f, "{:?}", self)
    }
}
impl std::error::Error for MErr {}

/// integer-table matrix polynomial Phi(a) = A0 + sum_k a_k A_k + sum_k a_k^2 B_k  (row-major tables)
#[derive(Debug, Clone, PartialEq)]
pub struct PolySpec {
    pub n: usize,
    pub m: usize,
    pub p: usize,
    pub a0: Vec<f64>,
    pub a: Vec<Vec<f64>>,
    pub b: Vec<Vec<f64>>,
}

#[derive(Debug, Clone, PartialEq)]
pub enum Family {
    /// e^{-x/tau}, 1
    Exp1Off,
    /// e^{-x/tau1}, e^{-x/tau2}, 1
    Exp2Off,
    /// three decays
    Exp3,
    /// gaussian(mu,s), e^{-x/tau}, 1
    GaussDecayOff,
    /// e^{-a2 x} cos(a3 x), e^{-a1 x} cos(a2 x)
    OLeary,
    /// n decays, no offset (P = M = n), for the schedule exploration with 4 and 5 Jacobian columns
    ExpN(usize),
    /// e^{-p0 x} cos(p1 x + p2) (1 + p3 x) DECLARED as f(p0, p2, p1, p3) (interior permuted), e^{-p3 x}, 1
    Perm4,
    /// e^{-x/tau}, 1 like Exp1Off, but the model REFUSES tau <= 0: the builder-made flavour's decay function (and its derivative)
    /// returns an empty vector there (the model builder's own output check reports it), the hand-written flavour returns an error
    GuardExp,
    /// x e^{-x/p0}, sin(p1 x): every basis function and every derivative vanishes at x = 0 (a zero row in Phi, J and H)
    XExpSin,
    /// hand-written only
    PolyMat(Arc<PolySpec>),
    /// M x P incidence (row j = parameters used by function j)
    GenProd { m: usize, p: usize, inc: [[bool; 3]; 3] },
}

impl Family {
    pub fn name(&self) -> String {
        match self {
            Family::Exp1Off => "Exp1Off".into(),
            Family::Exp2Off => "Exp2Off".into(),
            Family::Exp3 => "Exp3".into(),
            Family::GaussDecayOff => "GaussDecayOff".into(),
            Family::OLeary => "OLeary".into(),
            Family::ExpN(n) => format!("ExpN{}", n),
            Family::Perm4 => "Perm4".into(),
            Family::XExpSin => "XExpSin".into(),
            Family::GuardExp => "GuardExp".into(),
            Family::PolyMat(s) => format!("PolyMat{}x{}x{}", s.n, s.m, s.p),
            Family::GenProd { m, p, inc } => {
                let mut s = format!("GenProd{}x{}:", m, p);
                for j in 0..*m {
                    for k in 0..*p {
                        s.push(if inc[j][k] { '1' } else { '0' });
                    }
                    if j + 1 < *m {
                        s.push('/');
                    }
                }
                s
            }
        }
    }
    pub fn m(&self) -> usize {
        match self {
            Family::Exp1Off => 2,
            Family::Exp2Off => 3,
            Family::Exp3 => 3,
            Family::GaussDecayOff => 3,
            Family::OLeary => 2,
            Family::ExpN(n) => *n,
            Family::Perm4 => 3,
            Family::XExpSin => 2,
            Family::GuardExp => 2,
            Family::PolyMat(s) => s.m,
            Family::GenProd { m, .. } => *m,
        }
    }
    pub fn p(&self) -> usize {
        match self {
            Family::Exp1Off => 1,
            Family::Exp2Off => 2,
            Family::Exp3 => 3,
            Family::GaussDecayOff => 3,
            Family::OLeary => 3,
            Family::ExpN(n) => *n,
            Family::Perm4 => 4,
            Family::XExpSin => 2,
            Family::GuardExp => 1,
            Family::PolyMat(s) => s.p,
            Family::GenProd { p, .. } => *p,
        }
    }
    /// parameters function j depends on, in the function's own declaration order
    pub fn deps(&self, j: usize) -> Vec<usize> {
        match self {
            Family::Exp1Off | Family::GuardExp => {
                if j == 0 {
                    vec![0]
                } else {
                    vec![]
                }
            }
            Family::Exp2Off => {
                if j < 2 {
                    vec![j]
                } else {
                    vec![]
                }
            }
            Family::Exp3 | Family::ExpN(_) => vec![j],
            // the Gaussian is DECLARED as f(width, centre): p1 before p0 - neither model order nor alphabetical order
            Family::GaussDecayOff => match j {
                0 => vec![1, 0],
                1 => vec![2],
                _ => vec![],
            },
            // declared deliberately NOT in model order for function 0
            Family::OLeary => match j {
                0 => vec![2, 1],
                _ => vec![0, 1],
            },
            Family::XExpSin => vec![j],
            Family::Perm4 => match j {
                0 => vec![0, 2, 1, 3],
                1 => vec![3],
                _ => vec![],
            },
            Family::PolyMat(s) => (0..s.p).collect(),
            Family::GenProd { p, inc, .. } => (0..*p).filter(|&k| inc[j][k]).collect(),
        }
    }
    pub fn can_build(&self) -> bool {
        !matches!(self, Family::PolyMat(_))
    }
}

impl Family {
    /// complete, replayable description
    pub fn to_json(&self) -> serde_json::Value {
        use serde_json::json;
        match self {
            Family::GenProd { m, p, inc } => json!({"m": m, "p": p, "inc": inc.iter().map(|r| r.to_vec()).collect::<Vec<_>>()}),
            Family::PolyMat(s) => json!({"polymat": {"n": s.n, "m": s.m, "p": s.p, "a0": s.a0, "a": s.a, "b": s.b}}),
            o => json!(o.name()),
        }
    }
    /// inverse of `to_json` (also accepts the bare names)
    pub fn from_json(v: &serde_json::Value) -> Family {
        if let Some(s) = v.as_str() {
            return match s {
                "Exp1Off" => Family::Exp1Off,
                "Exp2Off" => Family::Exp2Off,
                "Exp3" => Family::Exp3,
                "GaussDecayOff" => Family::GaussDecayOff,
                "OLeary" => Family::OLeary,
                "Perm4" => Family::Perm4,
                "XExpSin" => Family::XExpSin,
                "GuardExp" => Family::GuardExp,
                o if o.starts_with("ExpN") => Family::ExpN(o[4..].parse().expect("ExpN<n>")),
                o => panic!("family {}", o),
            };
        }
        if let Some(q) = v.get("polymat") {
            let fv = |x: &serde_json::Value| -> Vec<f64> { x.as_array().unwrap().iter().map(|t| t.as_f64().unwrap()).collect() };
            let fvv = |x: &serde_json::Value| -> Vec<Vec<f64>> { x.as_array().unwrap().iter().map(|t| fv(t)).collect() };
            return Family::PolyMat(Arc::new(PolySpec { n: q["n"].as_u64().unwrap() as usize, m: q["m"].as_u64().unwrap() as usize, p: q["p"].as_u64().unwrap() as usize, a0: fv(&q["a0"]), a: fvv(&q["a"]), b: fvv(&q["b"]) }));
        }
        let mut inc = [[false; 3]; 3];
        for (j, r) in v["inc"].as_array().expect("family description").iter().enumerate() {
            for (k, b) in r.as_array().unwrap().iter().enumerate() {
                inc[j][k] = b.as_bool().unwrap();
            }
        }
        Family::GenProd { m: v["m"].as_u64().unwrap() as usize, p: v["p"].as_u64().unwrap() as usize, inc }
    }
}

#[inline]
fn gp_q<T: Sc>(j: usize, k: usize) -> T {
    T::f(1.0 + 0.5 * j as f64 + 0.25 * k as f64)
}
#[inline]
fn gp_g<T: Sc>(k: usize, x: T, a: T) -> T {
    match k {
        0 => num_traits::Float::exp(-(a * x)),
        1 => num_traits::Float::exp(-((x - a) * (x - a))),
        _ => num_traits::Float::cos(a * x),
    }
}
#[inline]
fn gp_dg<T: Sc>(k: usize, x: T, a: T) -> T {
    match k {
        0 => -x * num_traits::Float::exp(-(a * x)),
        1 => T::f(2.0) * (x - a) * num_traits::Float::exp(-((x - a) * (x - a))),
        _ => -x * num_traits::Float::sin(a * x),
    }
}

/// value of basis function j at sample (i, x) for parameters a (full model vector)
#[inline]
pub fn phi<T: Sc>(fam: &Family, j: usize, i: usize, x: T, a: &[T]) -> T {
    use num_traits::Float;
    match fam {
        Family::Exp1Off | Family::GuardExp => {
            if j == 0 {
                Float::exp(-x / a[0])
            } else {
                T::f(1.0)
            }
        }
        Family::Exp2Off => {
            if j < 2 {
                Float::exp(-x / a[j])
            } else {
                T::f(1.0)
            }
        }
        Family::Exp3 | Family::ExpN(_) => Float::exp(-x / a[j]),
        Family::GaussDecayOff => match j {
            0 => {
                let d = x - a[0];
                Float::exp(-(d * d) / (T::f(2.0) * a[1] * a[1]))
            }
            1 => Float::exp(-x / a[2]),
            _ => T::f(1.0),
        },
        Family::OLeary => match j {
            0 => Float::exp(-(a[1] * x)) * Float::cos(a[2] * x),
            _ => Float::exp(-(a[0] * x)) * Float::cos(a[1] * x),
        },
        Family::XExpSin => match j {
            0 => x * Float::exp(-x / a[0]),
            _ => Float::sin(a[1] * x),
        },
        Family::Perm4 => match j {
            0 => Float::exp(-(a[0] * x)) * Float::cos(a[1] * x + a[2]) * (T::f(1.0) + a[3] * x),
            1 => Float::exp(-(a[3] * x)),
            _ => T::f(1.0),
        },
        Family::PolyMat(s) => {
            let idx = i * s.m + j;
            let mut v = T::f(s.a0[idx]);
            for k in 0..s.p {
                v = v + a[k] * T::f(s.a[k][idx]);
                // the quadratic term only where the specification has one: a[k]^2 may overflow the scalar type, and inf * 0 is NaN
                if s.b[k][idx] != 0.0 {
                    v = v + a[k] * a[k] * T::f(s.b[k][idx]);
                }
            }
            v
        }
        Family::GenProd { p, inc, .. } => {
            let mut any = false;
            let mut v = T::f(1.0);
            for k in 0..*p {
                if inc[j][k] {
                    any = true;
                    v = v * gp_g(k, x, gp_q::<T>(j, k) * a[k]);
                }
            }
            if any {
                v
            } else {
                Float::powi(x, j as i32)
            }
        }
    }
}

/// d phi_j / d a_k
#[inline]
pub fn dphi<T: Sc>(fam: &Family, j: usize, k: usize, i: usize, x: T, a: &[T]) -> T {
    use num_traits::Float;
    let zero = T::f(0.0);
    match fam {
        Family::Exp1Off | Family::GuardExp => {
            if j == 0 && k == 0 {
                x / (a[0] * a[0]) * Float::exp(-x / a[0])
            } else {
                zero
            }
        }
        Family::Exp2Off => {
            if j < 2 && k == j {
                x / (a[j] * a[j]) * Float::exp(-x / a[j])
            } else {
                zero
            }
        }
        Family::Exp3 | Family::ExpN(_) => {
            if k == j {
                x / (a[j] * a[j]) * Float::exp(-x / a[j])
            } else {
                zero
            }
        }
        Family::GaussDecayOff => match (j, k) {
            (0, 0) => {
                let d = x - a[0];
                d / (a[1] * a[1]) * Float::exp(-(d * d) / (T::f(2.0) * a[1] * a[1]))
            }
            (0, 1) => {
                let d = x - a[0];
                d * d / (a[1] * a[1] * a[1]) * Float::exp(-(d * d) / (T::f(2.0) * a[1] * a[1]))
            }
            (1, 2) => x / (a[2] * a[2]) * Float::exp(-x / a[2]),
            _ => zero,
        },
        Family::OLeary => match (j, k) {
            (0, 1) => -x * Float::exp(-(a[1] * x)) * Float::cos(a[2] * x),
            (0, 2) => -x * Float::exp(-(a[1] * x)) * Float::sin(a[2] * x),
            (1, 0) => -x * Float::exp(-(a[0] * x)) * Float::cos(a[1] * x),
            (1, 1) => -x * Float::exp(-(a[0] * x)) * Float::sin(a[1] * x),
            _ => zero,
        },
        Family::XExpSin => match (j, k) {
            (0, 0) => x * x / (a[0] * a[0]) * Float::exp(-x / a[0]),
            (1, 1) => x * Float::cos(a[1] * x),
            _ => zero,
        },
        Family::Perm4 => {
            let e = Float::exp(-(a[0] * x));
            let arg = a[1] * x + a[2];
            let l = T::f(1.0) + a[3] * x;
            match (j, k) {
                (0, 0) => -x * e * Float::cos(arg) * l,
                (0, 1) => -x * e * Float::sin(arg) * l,
                (0, 2) => -(e * Float::sin(arg) * l),
                (0, 3) => x * e * Float::cos(arg),
                (1, 3) => -x * Float::exp(-(a[3] * x)),
                _ => zero,
            }
        }
        Family::PolyMat(s) => {
            let idx = i * s.m + j;
            if s.b[k][idx] != 0.0 {
                T::f(s.a[k][idx]) + T::f(2.0) * a[k] * T::f(s.b[k][idx])
            } else {
                T::f(s.a[k][idx])
            }
        }
        Family::GenProd { p, inc, .. } => {
            if !inc[j][k] {
                return zero;
            }
            let mut v = gp_q::<T>(j, k) * gp_dg(k, x, gp_q::<T>(j, k) * a[k]);
            for kk in 0..*p {
                if kk != k && inc[j][kk] {
                    v = v * gp_g(kk, x, gp_q::<T>(j, kk) * a[kk]);
                }
            }
            v
        }
    }
}

#[derive(Debug, Clone, PartialEq)]
pub struct ModelSpec {
    pub fam: Family,
    pub x: Vec<f64>,
}

impl ModelSpec {
    pub fn new(fam: Family, x: Vec<f64>) -> Self {
        Self { fam, x }
    }
    pub fn n(&self) -> usize {
        self.x.len()
    }
    /// reference evaluation in f64 arithmetic on the T-rounded inputs
    pub fn eval_ref<T: Sc>(&self, a: &[T]) -> DMatrix<f64> {
        let ad: Vec<f64> = a.iter().map(|v| v.d()).collect();
        let m = self.fam.m();
        DMatrix::from_fn(self.n(), m, |i, j| phi::<f64>(&self.fam, j, i, T::f(self.x[i]).d(), &ad))
    }
    pub fn deriv_ref<T: Sc>(&self, k: usize, a: &[T]) -> DMatrix<f64> {
        let ad: Vec<f64> = a.iter().map(|v| v.d()).collect();
        let m = self.fam.m();
        DMatrix::from_fn(self.n(), m, |i, j| dphi::<f64>(&self.fam, j, k, i, T::f(self.x[i]).d(), &ad))
    }
}

pub fn linspace(a: f64, b: f64, n: usize) -> Vec<f64> {
    if n == 1 {
        return vec![a];
    }
    (0..n).map(|i| a + (b - a) * i as f64 / (n - 1) as f64).collect()
}

// ---------------------------------------------------------------------------------------------
// dynamic model type

pub trait DynModel<T: Sc>: SeparableNonlinearModel<ScalarType = T, Error = MErr> + Send + Sync {
    fn clone_box(&self) -> Box<dyn DynModel<T>>;
}

pub struct BM<T: Sc>(pub Box<dyn DynModel<T>>);

impl<T: Sc> Clone for BM<T> {
    fn clone(&self) -> Self {
        BM(self.0.clone_box())
    }
}

impl<T: Sc> SeparableNonlinearModel for BM<T> {
    type ScalarType = T;
    type Error = MErr;
    #[inline]
    fn parameter_count(&self) -> usize {
        self.0.parameter_count()
    }
    #[inline]
    fn base_function_count(&self) -> usize {
        self.0.base_function_count()
    }
    #[inline]
    fn output_len(&self) -> usize {
        self.0.output_len()
    }
    #[inline]
    fn set_params(&mut self, parameters: OVector<T, Dyn>) -> Result<(), MErr> {
        self.0.set_params(parameters)
    }
    #[inline]
    fn params(&self) -> OVector<T, Dyn> {
        self.0.params()
    }
    #[inline]
    fn eval(&self) -> Result<OMatrix<T, Dyn, Dyn>, MErr> {
        self.0.eval()
    }
    #[inline]
    fn eval_partial_deriv(&self, k: usize) -> Result<OMatrix<T, Dyn, Dyn>, MErr> {
        self.0.eval_partial_deriv(k)
    }
}

// ---------------------------------------------------------------------------------------------
// hand-written provenance

#[derive(Clone)]
pub struct Hand<T: Sc> {
    pub fam: Family,
    pub x: DVector<T>,
    pub a: DVector<T>,
}

impl<T: Sc> SeparableNonlinearModel for Hand<T> {
    type ScalarType = T;
    type Error = MErr;
    fn parameter_count(&self) -> usize {
        self.fam.p()
    }
    fn base_function_count(&self) -> usize {
        self.fam.m()
    }
    fn output_len(&self) -> usize {
        self.x.len()
    }
    fn set_params(&mut self, parameters: OVector<T, Dyn>) -> Result<(), MErr> {
        if parameters.len() != self.fam.p() {
            return Err(MErr::Model("wrong parameter count".into()));
        }
        self.a = parameters;
        Ok(())
    }
    fn params(&self) -> OVector<T, Dyn> {
        self.a.clone()
    }
    fn eval(&self) -> Result<OMatrix<T, Dyn, Dyn>, MErr> {
        let a = self.a.as_slice();
        if matches!(self.fam, Family::GuardExp) && !(a[0] > T::f(0.0)) {
            return Err(MErr::Model("decay constant outside the model's domain".into()));
        }
        Ok(DMatrix::from_fn(self.x.len(), self.fam.m(), |i, j| phi(&self.fam, j, i, self.x[i], a)))
    }
    fn eval_partial_deriv(&self, k: usize) -> Result<OMatrix<T, Dyn, Dyn>, MErr> {
        if k >= self.fam.p() {
            return Err(MErr::Model("derivative index out of bounds".into()));
        }
        let a = self.a.as_slice();
        if matches!(self.fam, Family::GuardExp) && !(a[0] > T::f(0.0)) {
            return Err(MErr::Model("decay constant outside the model's domain".into()));
        }
        Ok(DMatrix::from_fn(self.x.len(), self.fam.m(), |i, j| dphi(&self.fam, j, k, i, self.x[i], a)))
    }
}
impl<T: Sc> DynModel<T> for Hand<T> {
    fn clone_box(&self) -> Box<dyn DynModel<T>> {
        Box::new(self.clone())
    }
}

// ---------------------------------------------------------------------------------------------
// builder-made provenance

pub fn pname(k: usize) -> String {
    format!("p{}", k)
}

fn col_phi<T: Sc>(fam: &Family, j: usize, deps: &[usize], x: &DVector<T>, sub: &[T]) -> DVector<T> {
    if matches!(fam, Family::GuardExp) && j == 0 && !(sub[0] > T::f(0.0)) {
        return DVector::zeros(0);
    }
    let mut full = vec![T::f(f64::NAN); fam.p()];
    for (d, v) in deps.iter().zip(sub.iter()) {
        full[*d] = *v;
    }
    DVector::from_fn(x.len(), |i, _| phi(fam, j, i, x[i], &full))
}
fn col_dphi<T: Sc>(fam: &Family, j: usize, k: usize, deps: &[usize], x: &DVector<T>, sub: &[T]) -> DVector<T> {
    if matches!(fam, Family::GuardExp) && j == 0 && !(sub[0] > T::f(0.0)) {
        return DVector::zeros(0);
    }
    let mut full = vec![T::f(f64::NAN); fam.p()];
    for (d, v) in deps.iter().zip(sub.iter()) {
        full[*d] = *v;
    }
    DVector::from_fn(x.len(), |i, _| dphi(fam, j, k, i, x[i], &full))
}

/// build the family through the public SeparableModelBuilder API
pub fn build_separable<T: Sc>(spec: &ModelSpec, a0: &[T]) -> SeparableModel<T> {
    let fam = &spec.fam;
    assert!(fam.can_build());
    let names: Vec<String> = (0..fam.p()).map(pname).collect();
    let mut b = SeparableModelBuilder::<T>::new(&names);
    // the order of the builder calls is varied as a pure function of the shape (replays reproduce it): sample locations and
    // initial parameters last (0); provisional ones - other values, same lengths - first and the final ones last, the last
    // call of a kind counting (1); the final ones first, before any function is added (2)
    let order = (spec.x.len() + fam.m()) % 3;
    let xs = crate::num::vec_t::<T>(&spec.x);
    if order == 1 {
        b = b.independent_variable(xs.map(|v| v * T::f(1.5) + T::f(0.25))).initial_parameters(a0.iter().map(|v| *v * T::f(0.5)).collect());
    } else if order == 2 {
        b = b.independent_variable(xs.clone()).initial_parameters(a0.to_vec());
    }
    for j in 0..fam.m() {
        let deps = fam.deps(j);
        let dn: Vec<String> = deps.iter().map(|&k| pname(k)).collect();
        macro_rules! addf {
            ($($arg:ident),+) => {{
                let (f1, d1) = (fam.clone(), deps.clone());
                b = b.function(&dn, move |x: &DVector<T>, $($arg: T),+| col_phi(&f1, j, &d1, x, &[$($arg),+]));
                for &k in deps.iter() {
                    let (f2, d2) = (fam.clone(), deps.clone());
                    b = b.partial_deriv(pname(k), move |x: &DVector<T>, $($arg: T),+| col_dphi(&f2, j, k, &d2, x, &[$($arg),+]));
                }
            }};
        }
        match deps.len() {
            0 => {
                let f1 = fam.clone();
                b = b.invariant_function(move |x: &DVector<T>| col_phi(&f1, j, &[], x, &[]));
            }
            1 => addf!(a),
            2 => addf!(a, b2),
            3 => addf!(a, b2, c),
            4 => addf!(a, b2, c, d),
            _ => unreachable!(),
        }
    }
    if order != 2 {
        b = b.independent_variable(xs).initial_parameters(a0.to_vec());
    }
    b.build().expect("zoo model must build")
}

pub struct Built<T: Sc> {
    pub spec: ModelSpec,
    pub inner: SeparableModel<T>,
}
impl<T: Sc> SeparableNonlinearModel for Built<T> {
    type ScalarType = T;
    type Error = MErr;
    fn parameter_count(&self) -> usize {
        self.inner.parameter_count()
    }
    fn base_function_count(&self) -> usize {
        self.inner.base_function_count()
    }
    fn output_len(&self) -> usize {
        self.inner.output_len()
    }
    fn set_params(&mut self, parameters: OVector<T, Dyn>) -> Result<(), MErr> {
        self.inner.set_params(parameters).map_err(|e| MErr::Model(e.to_string()))
    }
    fn params(&self) -> OVector<T, Dyn> {
        self.inner.params()
    }
    fn eval(&self) -> Result<OMatrix<T, Dyn, Dyn>, MErr> {
        self.inner.eval().map_err(|e| MErr::Model(e.to_string()))
    }
    fn eval_partial_deriv(&self, k: usize) -> Result<OMatrix<T, Dyn, Dyn>, MErr> {
        self.inner.eval_partial_deriv(k).map_err(|e| MErr::Model(e.to_string()))
    }
}
impl<T: Sc> DynModel<T> for Built<T> {
    fn clone_box(&self) -> Box<dyn DynModel<T>> {
        let a = self.inner.params();
        Box::new(Built { spec: self.spec.clone(), inner: build_separable(&self.spec, a.as_slice()) })
    }
}

#[derive(Debug, Clone, Copy, PartialEq, Eq, PartialOrd, Ord)]
pub enum Prov {
    Hand,
    Built,
}
impl Prov {
    pub fn name(&self) -> &'static str {
        match self {
            Prov::Hand => "hand",
            Prov::Built => "built",
        }
    }
}

pub fn make<T: Sc>(spec: &ModelSpec, prov: Prov, a0: &[f64]) -> BM<T> {
    let a: Vec<T> = a0.iter().map(|&v| T::f(v)).collect();
    make_t(spec, prov, &a)
}
pub fn make_t<T: Sc>(spec: &ModelSpec, prov: Prov, a: &[T]) -> BM<T> {
    match prov {
        Prov::Hand => BM(Box::new(Hand { fam: spec.fam.clone(), x: crate::num::vec_t::<T>(&spec.x), a: DVector::from_vec(a.to_vec()) })),
        Prov::Built => BM(Box::new(Built { spec: spec.clone(), inner: build_separable(spec, a) })),
    }
}
