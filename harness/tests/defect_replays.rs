//! Plain unit tests that replay, WITHOUT any explorer, the inputs on which the checks found the six genuine
//! defects of geo-ant/varpro (DESIGN.md 12.2).  Each test fails on the tree before the corresponding `fix:`
//! commit and passes after it.  Run:  cd /verif/harness && cargo test --offline --test defect_replays
use levenberg_marquardt::LeastSquaresProblem;
use nalgebra::{DMatrix, DVector, Dyn, OMatrix, OVector};
use std::sync::mpsc;
use std::time::Duration;
use varpro::model::builder::error::ModelBuildError;
use varpro::model::SeparableModel;
use varpro::prelude::*;
use varpro::solvers::levmar::{LevMarProblemBuilder, LevMarSolver};

/// run on its own thread: a panic or no answer within 20 s fails the test
fn returns<R: Send + 'static>(what: &str, f: impl FnOnce() -> R + Send + 'static) -> R {
    let (tx, rx) = mpsc::channel();
    std::thread::spawn(move || {
        let _ = tx.send(std::panic::catch_unwind(std::panic::AssertUnwindSafe(f)));
    });
    match rx.recv_timeout(Duration::from_secs(20)) {
        Ok(Ok(r)) => r,
        Ok(Err(_)) => panic!("{} panicked", what),
        Err(_) => panic!("{} did not return within 20 s", what),
    }
}

fn exp_model(x: DVector<f64>, tau0: f64) -> SeparableModel<f64> {
    SeparableModelBuilder::<f64>::new(["tau"])
        .function(["tau"], |x: &DVector<f64>, tau: f64| x.map(|v| (-v / tau).exp()))
        .partial_deriv("tau", |x: &DVector<f64>, tau: f64| x.map(|v| v / (tau * tau) * (-v / tau).exp()))
        .invariant_function(|x: &DVector<f64>| x.map(|_| 1.0))
        .independent_variable(x)
        .initial_parameters(vec![tau0])
        .build()
        .unwrap()
}

/// C15, fixed by 15f90c1: the error must name a defect that is present
#[test]
fn c15_function_of_a_foreign_parameter_is_reported_as_such() {
    let f = |x: &DVector<f64>, b: f64| x.map(|v| v * b);
    let r = SeparableModelBuilder::<f64>::new(["a"]).function(["b"], f).partial_deriv("b", f).independent_variable(DVector::from_vec(vec![1.0, 2.0])).initial_parameters(vec![1.0]).build();
    match r {
        Err(ModelBuildError::FunctionParameterNotInModel { function_parameter }) => assert_eq!(function_parameter, "b"),
        Err(ModelBuildError::UnusedParameter { parameter }) => assert_eq!(parameter, "a"),
        other => panic!("expected a defect that is present (foreign parameter b / unused a), got {:?}", other.map(|_| "Ok")),
    }
}

/// C12, fixed by a40622e: fewer samples than parameters must give Err in a build with overflow checks (this test profile)
#[test]
fn c12_underdetermined_statistics_are_an_error_not_a_panic() {
    let ok = returns("fit_with_statistics with N < M + P", || {
        let model = SeparableModelBuilder::<f64>::new(["a", "b"])
            .function(["a", "b"], |x: &DVector<f64>, a: f64, b: f64| x.map(|v| (-a * v).exp() * (b * v).cos()))
            .partial_deriv("a", |x: &DVector<f64>, a: f64, b: f64| x.map(|v| -v * (-a * v).exp() * (b * v).cos()))
            .partial_deriv("b", |x: &DVector<f64>, a: f64, b: f64| x.map(|v| -v * (-a * v).exp() * (b * v).sin()))
            .independent_variable(DVector::from_vec(vec![0.5, 1.0]))
            .initial_parameters(vec![1.0, 2.0])
            .build()
            .unwrap();
        let problem = LevMarProblemBuilder::new(model).observations(DVector::from_vec(vec![0.4, 0.1])).build().unwrap();
        LevMarSolver::default().fit_with_statistics(problem).is_ok()
    });
    assert!(!ok, "N = 2 <= M + P = 3 must be rejected");
}

/// C08, fixed by 34a68c5: an infinite sample location (panic) and a NaN starting parameter (SVD never returned)
#[test]
fn c08_non_finite_basis_matrix_is_a_failed_fit() {
    let failed = returns("fit with x[0] = inf", || {
        let x = DVector::from_vec(vec![f64::INFINITY, 1.0, 2.0, 3.0]);
        let problem = LevMarProblemBuilder::new(exp_model(x, 1.5)).observations(DVector::from_vec(vec![1.0, 0.7, 0.5, 0.4])).build().unwrap();
        LevMarSolver::default().fit(problem).is_err()
    });
    assert!(failed);
    let failed = returns("fit with tau0 = NaN", || {
        let x = DVector::from_vec(vec![0.0, 1.0, 2.0, 3.0]);
        let problem = LevMarProblemBuilder::new(exp_model(x, f64::NAN)).observations(DVector::from_vec(vec![1.0, 0.7, 0.5, 0.4])).build().unwrap();
        assert!(problem.residuals().is_none());
        LevMarSolver::default().fit(problem).is_err()
    });
    assert!(failed);
}

/// a hand-written model that rejects every parameter vector after the first `good` applications
#[derive(Clone)]
struct Rejecting {
    x: DVector<f64>,
    tau: DVector<f64>,
    calls: usize,
    good: usize,
}
impl SeparableNonlinearModel for Rejecting {
    type ScalarType = f64;
    type Error = std::fmt::Error;
    fn parameter_count(&self) -> usize {
        1
    }
    fn base_function_count(&self) -> usize {
        2
    }
    fn output_len(&self) -> usize {
        self.x.len()
    }
    fn set_params(&mut self, p: OVector<f64, Dyn>) -> Result<(), Self::Error> {
        self.calls += 1;
        if self.calls > self.good {
            return Err(std::fmt::Error);
        }
        self.tau = p;
        Ok(())
    }
    fn params(&self) -> OVector<f64, Dyn> {
        self.tau.clone()
    }
    fn eval(&self) -> Result<OMatrix<f64, Dyn, Dyn>, Self::Error> {
        Ok(DMatrix::from_fn(self.x.len(), 2, |i, j| if j == 0 { (-self.x[i] / self.tau[0]).exp() } else { 1.0 }))
    }
    fn eval_partial_deriv(&self, _k: usize) -> Result<OMatrix<f64, Dyn, Dyn>, Self::Error> {
        Ok(DMatrix::from_fn(self.x.len(), 2, |i, j| if j == 0 { self.x[i] / (self.tau[0] * self.tau[0]) * (-self.x[i] / self.tau[0]).exp() } else { 0.0 }))
    }
}

/// C09, fixed by 7e1e4b7: after a rejected parameter vector nothing computed for earlier parameters may be exposed
#[test]
fn c09_rejected_parameters_leave_no_stale_values() {
    let x = DVector::from_vec(vec![0.0, 1.0, 2.0, 3.0, 4.0]);
    let model = Rejecting { x, tau: DVector::from_vec(vec![1.5]), calls: 0, good: 2 };
    let mut problem = LevMarProblemBuilder::new(model).observations(DVector::from_vec(vec![1.5, 1.0, 0.8, 0.65, 0.6])).build().unwrap();
    assert!(problem.residuals().is_some());
    problem.set_params(&DVector::from_vec(vec![2.0])); // accepted (build() itself applied the initial parameters once)
    assert!(problem.residuals().is_some());
    problem.set_params(&DVector::from_vec(vec![2.5])); // rejected by the model
    assert!(problem.residuals().is_none() && problem.jacobian().is_none() && problem.linear_coefficients().is_none(), "values computed for earlier parameters are exposed after a rejected update");
}

/// C08 (second), fixed by 17817ed: all inputs finite; the optimizer tries a negative decay constant, the f32 basis
/// matrix spans 1e-13 .. 4e24, nalgebra's SVD answers with a NaN singular value
#[test]
fn c08_nan_singular_values_of_a_finite_matrix_are_a_failed_evaluation() {
    use vpmc::gen::{data, spec_for, truth};
    use vpmc::zoo::{make, Family, Prov};
    returns("fit of four exponentials in f32 with y[0] = 0", || {
        let fam = Family::ExpN(4);
        let spec = spec_for(&fam, 8);
        let (a, _) = truth(&fam);
        let a0: Vec<f64> = a.iter().enumerate().map(|(k, v)| v * (1.0 + 0.04 * (k as f64 + 1.0))).collect();
        let mut y = data(&spec, 1.0, 1e-3, 1, 7);
        y[0] = 0.0;
        let y32 = DVector::<f32>::from_fn(8, |i, _| y[i] as f32);
        let problem = LevMarProblemBuilder::new_parallel(make::<f32>(&spec, Prov::Hand, &a0)).observations(y32).build().unwrap();
        let _ = LevMarSolver::default().fit(problem);
    });
}

/// C13, fixed by 42180c5: an Ok result carries a finite covariance matrix
#[test]
fn c13_covariance_of_an_ok_result_is_finite() {
    use vpmc::gen::{data, spec_for, truth, WKind};
    use vpmc::zoo::{make, Family, Prov};
    let fam = Family::GenProd { m: 1, p: 2, inc: [[true, true, false], [false; 3], [false; 3]] };
    for (amp, w) in [(1e5, WKind::Huge), (1e-5, WKind::Tiny)] {
        let spec = spec_for(&fam, 7);
        let (a, _) = truth(&fam);
        let y = data(&spec, amp, 1e-3, 1, 0);
        let wv = w.make(7).unwrap();
        let problem = LevMarProblemBuilder::new(make::<f32>(&spec, Prov::Hand, &a))
            .observations(DVector::<f32>::from_fn(7, |i, _| y[i] as f32))
            .weights(DVector::<f32>::from_fn(7, |i, _| wv[i] as f32))
            .build()
            .unwrap();
        if let Ok((_fit, stats)) = LevMarSolver::default().fit_with_statistics(problem) {
            assert!(stats.covariance_matrix().iter().all(|v| v.is_finite()), "Ok with covariance {}", stats.covariance_matrix());
            assert!(stats.confidence_band_radius(0.9f32).iter().all(|v| v.is_finite() && *v >= 0.0));
        }
    }
}

/// OPEN known finding (known_findings.json, DESIGN 12.2): recorded, not repaired - this test documents the failing input and
/// is ignored by default (`cargo test -- --ignored` shows it failing on /repo HEAD).
/// Three decays in f32, 8 samples, amplitude 1e5, weights 1 + i/N: H^T H is ill conditioned only through the scale of its
/// columns (kappa 5e13 as inverted, 2.9e4 after scaling the columns to unit length), yet the variances come out negative.
#[test]
#[ignore]
fn c13_open_finding_negative_variances_for_a_badly_scaled_problem() {
    use vpmc::gen::{data, spec_for, truth, WKind};
    use vpmc::zoo::{make, Family, Prov};
    let fam = Family::Exp3;
    let spec = spec_for(&fam, 8);
    let (a, _) = truth(&fam);
    let y = data(&spec, 1e5, 1e-3, 0, 0);
    let wv = WKind::Ramp.make(8).unwrap();
    let problem = LevMarProblemBuilder::new(make::<f32>(&spec, Prov::Hand, &a))
        .observations(DVector::<f32>::from_fn(8, |i, _| y[i] as f32))
        .weights(DVector::<f32>::from_fn(8, |i, _| wv[i] as f32))
        .build()
        .unwrap();
    if let Ok((_fit, stats)) = LevMarSolver::default().fit_with_statistics(problem) {
        let c = stats.covariance_matrix();
        assert!((0..c.nrows()).all(|k| c[(k, k)] >= 0.0), "negative variances: {:?}", (0..c.nrows()).map(|k| c[(k, k)]).collect::<Vec<_>>());
    }
}
