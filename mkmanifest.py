#!/usr/bin/env python3
"""Regenerates MANIFEST.json from plan.py and the per-property metadata below."""
import json, os, sys

ROOT = os.path.dirname(os.path.abspath(__file__))
sys.path.insert(0, ROOT)
from plan import PLAN, LEVEL

META = {
    "C15": dict(
        technique="explicit-state enumeration of builder call sequences (all words <= L, all <= k-edit deviations of valid templates) against a reference specification automaton",
        text="Every call sequence up to the bound is executed on the real SeparableModelBuilder and judged by an independent reference automaton: Ok iff no defect present, and every error must name (kind and payload) a defect present in the sequence. Exhaustive within the stated alphabet and length/edit bounds; nothing is sampled.",
        note="Trusted: the reference automaton (harness/src/mbref.rs). Bounds: 6 model lists x 26 symbols, length <= 4 (quick) / 5 (thorough); 10 templates, <= 1 / 2 edits over a 58-symbol pool; arities 1..3.",
        ref="DESIGN.md §5 C15",
    ),
}

NOT_YET = "check not yet registered in this revision (engine under construction, see DESIGN.md §10)"
NA = {
    "C19": "frequency claim over a continuous noise distribution ('up to sampling error'): deciding it needs Monte-Carlo sampling or an analytic proof, neither of which is an exhaustive enumeration of a bounded behaviour space (DESIGN.md §5 C19); its deterministic ingredients are decided under C12-C14",
}

ENGINES = [
    dict(name="mbuilder", path="harness/src/bin/mbuilder.rs", serves_properties=["C15"], kind_free_text="explicit-state enumeration of builder call sequences vs reference automaton (real SeparableModelBuilder)"),
]


def main():
    baseline = json.load(open("/root/.vp/BASELINE.json"))
    checks = []
    for pid in sorted(PLAN):
        m = META[pid]
        checks.append(
            dict(
                property_id=pid,
                quick_cmd="./check %s --tier quick" % pid,
                thorough_cmd="./check %s --tier thorough" % pid,
                evidence_file="/verif/evidence/%s.json" % pid,
                replay_cmd_template="./check %s --replay {path}" % pid,
                engine=", ".join(sorted({r["bin"] for r in PLAN[pid]("thorough")})),
                level_claimed=dict(category=LEVEL[pid], text=m["text"], design_ref=m["ref"]),
                level_note=m["note"],
                technique=m["technique"],
            )
        )
    na = []
    for i in range(1, 20):
        pid = "C%02d" % i
        if pid in PLAN:
            continue
        na.append(dict(property_id=pid, reason=NA.get(pid, NOT_YET)))
    man = dict(
        version=1,
        setup_cmd="./setup.sh",
        hooks=dict(
            guard="none (no source hooks: every oracle uses the public API; see DESIGN.md §3.6)",
            enable="n/a - checks build /repo as a path dependency with feature `parallel`",
            baseline_off_cmd="cd /repo && cargo test --workspace --no-fail-fast --offline",
            source_commits=[],
            add_only=True,
        ),
        engines=[e for e in ENGINES if any(p in PLAN for p in e["serves_properties"])],
        checks=checks,
        not_applicable=na,
        notes="Driver: ./check <ID> --tier quick|thorough [--replay file]. Known findings: known_findings.json. Seeded property-breaking changes: seeded/<id>/. All checks rebuild the harness against /repo's working tree (path dependency).",
    )
    json.dump(man, open(os.path.join(ROOT, "MANIFEST.json"), "w"), indent=1)
    try:
        import jsonschema
        jsonschema.validate(man, json.load(open("/root/.vp/MANIFEST.schema.json")))
        print("MANIFEST.json valid;", len(checks), "checks,", len(na), "not_applicable")
    except ImportError:
        print("MANIFEST.json written (jsonschema not importable)")


if __name__ == "__main__":
    main()
