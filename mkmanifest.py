#!/usr/bin/env python3
"""Regenerates MANIFEST.json from plan.py and the per-property metadata below."""
import json, os, sys

ROOT = os.path.dirname(os.path.abspath(__file__))
sys.path.insert(0, ROOT)
from plan import PLAN, LEVEL

META = {
    "C15": dict(
        technique="explicit-state enumeration of builder call sequences (all words <= L, all <= k-edit deviations of valid templates) against a reference specification automaton",
        text="Every call sequence up to the bound is executed on the real SeparableModelBuilder and judged by an independent reference automaton: Ok iff no defect present, and every error must name (kind and payload) a defect present in the sequence. Exhaustive within the stated alphabet and length/edit bounds; nothing is sampled.",
        note="Trusted: the reference automaton (harness/src/mbref.rs). Bounds: 6 model lists x 26 symbols, length <= 4 (quick) / 5 (thorough); 10 templates, <= 1 / 2 edits over a 58-symbol pool; arities 1..3.",
        ref="DESIGN.md §5 C15",
    ),
}

META.update({
    "C08": dict(
        technique="exhaustive enumeration of IEEE special values at every input position (deviation-bounded: <= k positions replaced) on real build/set_params/fit/fit_with_statistics runs under a watchdog",
        text="Every placement of <= k values from a 14-value IEEE alphabet (zeros, subnormal, extremes, +-inf, NaN) at every position of x, y, w, the initial alpha and a later set_params, for every small shape (N incl. N<M, M, P, S), provenance, flavour, scalar width and both build profiles, is run through the complete public pipeline; a panic or a watchdog timeout is a violation. Exhaustive within the alphabet, shapes and k; a fault enumeration, not a proof about all floats.",
        note="Trusted: wall-clock watchdog (4 s per case that normally takes microseconds) decides 'does not return'. Bounds: k<=1 quick, k<=2 thorough (N<=3 for k=2).",
        ref="DESIGN.md §5 C08",
    ),
    "C09": dict(
        technique="fault injection at every model-call index (transient and persistent, two set_params failure behaviours) over every caller-driven history up to depth d, a complete fit and fit_with_statistics, on the real LevMarProblem",
        text="For each scenario the un-faulted run fixes the number n of model calls; the run is repeated with a failure at every index k<n. After every API call the oracle demands absent values after a failed update, None from jacobian() on a failed derivative, bitwise equality with a freshly built problem whenever values are present, Err from fits that saw a failure, and no panic.",
        note="Trusted: the Faulty wrapper (harness/src/wrap.rs) as a legal model. Bounds: Z1/Z2 (quick) + O'Leary, f32, parallel (thorough); histories over 3 parameter vectors to depth 2/3.",
        ref="DESIGN.md §5 C09",
    ),
    "C12": dict(
        technique="exhaustive product grid over (N,M,P) shapes incl. N<M+P and N=M+P, solver configurations that force success, both build profiles, plus fault injection at every model call of the statistics phase",
        text="All shapes M,P<=3, N=M..M+P+3 (and Z1-Z5), f32/f64, hand/built, weights, three ways of reaching a successful fit, in release and overflow-checked arithmetic: Ok implies N>M+P and the defining identities; N<=M+P or a model error during the statistics must give Err without panic.",
        note="Small-scope: shapes up to 3x3; identities checked to 16 eps scaled.",
        ref="DESIGN.md §5 C12",
    ),
    "C13": dict(
        technique="exhaustive enumeration of all MxP parameter-incidence patterns (M,P<=3) x weights x noise x scale x width, each a real fit_with_statistics compared with a reference sigma^2 (H^T H)^-1",
        text="Every incidence pattern in which each parameter is used (shared parameters, invariant functions anywhere) is fitted from the truth; the covariance is compared with an independent Jacobi-SVD reference within the normwise bound of a backward-stable inversion, accessors must be the exact diagonal segments, correlation the normalised covariance.",
        note="Cases with K eps kappa(H^T H) > 0.25 are executed but not compared (counted separately). Zero-residual fits excluded (0/0 normalisation).",
        ref="DESIGN.md §5 C13",
    ),
    "C14": dict(
        technique="exhaustive grid over degrees of freedom 1..30 (+100) x probability alphabet x width x weights, against a scipy-generated Student-t table",
        text="For every nu and every p of the alphabet (incl. values within one ulp of 1 in f32) the band radius must equal t((1+p)/2;nu)*sqrt(j^T Cov j) within 2e-4, be finite, non-negative, non-decreasing in p; illegal p must panic.",
        note="Trusted: harness/data/tquant.json (scipy.stats.t). The quantile accuracy of the distrs crate (measured <= 1.6e-4) bounds the tolerance.",
        ref="DESIGN.md §5 C14",
    ),
})

E1 = "explicit-state exploration of the real LevMarProblem: every history of set_params over an alphabet of parameter vectors up to depth d (DFS, live problem cloned at every node), queries as self-loops, invariants evaluated in every reached state"
META.update({
    "C01": dict(technique=E1 + "; invariant = least-squares optimality certificate, minimum-norm, truncated-pseudo-inverse reference, linearity",
        text="In every reached state of every scenario (7 families + crafted diagonal matrices with singular values either side of the threshold, hand/built, f32/f64, seq/par, single/mrhs, 6 weight kinds, default/+-user thresholds) the reported coefficients must satisfy the normal equations on the retained subspace, have no component along truncated directions, agree with an independent Jacobi-SVD reference and be linear in the observations; all values finite in the rank-deficient corner.",
        note="States whose singular values lie within a factor 2 (plus the rounding floor of the scalar type) of the threshold are classified Ambiguous and only counted. alpha, Y, w are finite alphabets.", ref="DESIGN.md §5 C01"),
    "C02": dict(technique=E1 + "; invariant = residuals == column-major W(Y - Phi C) for the reported C, weighted_data == W*Y, params() == last applied alpha",
        text="Identity between reported quantities in every reached state, including rank-deficient states (where a projector-based shortcut differs), weights with w^2 != w, negative and zero weights, multiple right-hand sides.",
        note="best_fit (shape, value, zero/negative weights) and optimizer-driven histories (replay of the optimizer's recorded parameter sequence by hand must give the same final state) are decided on the fit grid (fitgrid engine).", ref="DESIGN.md §5 C02"),
    "C03": dict(technique=E1 + "; invariant = reference Kaufman Jacobian, range orthogonality, finite-difference gradient; plus fault injection at every derivative call (all-or-nothing)",
        text="In every full-rank reached state jacobian() is compared column by column and block by block with -(I-P)W D_k C built from an independent reference, every block must be orthogonal to range(W Phi), and 2 J^T r must match central differences of fresh problems; the faults engine shows that a failing derivative at any index yields None.",
        note="Full-rank = all singular values surely above the threshold; K eps kappa <= 1e-2.", ref="DESIGN.md §5 C03"),
    "C06": dict(technique=E1 + " on lock-step twins: weighted problem || row-scaled unweighted problem (and unit-weights || no weights, zero weight || row deleted, negative weight || |w|)",
        text="Twins are stepped through the same histories; coefficients, residuals and Jacobian must agree in every state (bitwise for unit weights; tolerance otherwise, bitwise in practice and counted).",
        note="Whole fits and fit_with_statistics of the twins are compared on the fit grid (termination, parameters, coefficients, residuals, reduced chi2, covariance within K eps kappa).", ref="DESIGN.md §5 C06"),
    "C07": dict(technique=E1 + " on lock-step 1+S problems: the mrhs problem and the S single-rhs problems of its columns, over all ordered column selections from a 6-column pool (S<=3, plus S=4,5)",
        text="Column s of the coefficient matrix and block s of residuals and of every Jacobian column must equal the single-rhs problem's in every reached state; includes duplicated, dependent and zero columns, S > M, weights, both flavours.",
        note="Invariance of the fitted parameters under every column permutation (and the matching permutation of coefficient columns) is decided on the fit grid.", ref="DESIGN.md §5 C07"),
    "C10": dict(technique=E1 + "; invariant = the map alpha -> observable state is single-valued over all histories and equals a freshly built problem bitwise; queries are self-loops; failed updates leave nothing exposed",
        text="Every state is approached through every history up to depth 3 (quick) / 4 (thorough) over alphabets that include rank-deficient, extreme and model-rejected parameter vectors.",
        note="Uninitialised memory: the binary's global allocator poisons fresh and freed memory; every first-visited state is re-observed under four poison bytes and against a fresh problem. Thorough tier adds one free-running execution under miri (uninitialised reads and data races are UB reports) - an interpreter of one execution, used as an additional oracle only.", ref="DESIGN.md §5 C10, §12.1"),
    "C11": dict(technique="stateless exhaustive schedule exploration of the real parallel Jacobian (shuttle DFS over a shim rayon-core: all steal maps x all interleavings), plus lock-step explicit-state exploration parallel||sequential under real rayon, plus whole fits under every pool size 1..16",
        text="(a) every schedule of rayon's real iterator plumbing + nalgebra's column producer + varpro's closure yields the sequential Jacobian bitwise, evaluates every derivative exactly once, and yields None when any derivative fails; all P! evaluation orders are reached (non-vacuity). (b) every scenario of C01-C03 is stepped in both flavours through every history with bitwise-equal observations. (c) parallel fits under pools of 1..16 workers equal the sequential fit bitwise; into_sequential preserves the state.",
        note="Interleavings at derivative-evaluation granularity; rayon's own deque/sleep protocol is replaced by the shim, not verified; P <= 5 columns. The atomicity assumption (tasks are data-race free) is discharged in the thorough tier by a separate free-running pass of the same bodies on real rayon under miri's race detector.", ref="DESIGN.md §5 C11, appendix A, §12.1"),
})

META.update({
    "C16": dict(technique="exhaustive enumeration of builder-made models (all parameter-list permutations x all ordered subsets x all derivative orders, arities 1..10) with injectively tagged closures, exact comparison",
        text="Each enumerated model is built through the public builder with closures that encode (function id, received arguments in order); eval, every partial derivative, the params round-trip and parameters() are compared bitwise with the specification. Each macro-generated arity 1..10 is exercised with assignments that separate every pair of argument positions.",
        note="Arity <= 4 is complete over 3- and 4-parameter models; arity 5..10 is systematic (rotations, all transpositions), not all 10!/(10-a)! assignments.", ref="DESIGN.md §5 C16"),
})

META.update({
    "C17": dict(technique="explicit-state exploration of all misuse op sequences up to depth d on a real builder-made model, under every environment of wrong-length closure outputs, against a reference state machine (last accepted parameters)",
        text="Every op of every sequence is judged: right error kind and payload for wrong output lengths (also two cooperating wrong lengths whose totals cancel), out-of-range derivative indices and wrong parameter counts; no panic; after every call params() and all later evaluations are bitwise those of the last accepted parameter vector.",
        note="Reference: harness/src/bin/mbuilder.rs (mod misuse). Depth 3 quick / 4 thorough over 12 ops x 93 environments.", ref="DESIGN.md §5 C17"),
})

META.update({
    "C18": dict(technique="exhaustive enumeration of fitting-problem-builder call sequences (all orders and repetitions up to length L) against a reference validation function, with behavioural observation of the threshold",
        text="Ok iff the reference finds no violated requirement, errors must name a violated requirement, a built problem starts at the model's parameters with residuals/coefficients equal to an explicit set_params(initial), equals the canonical-order build bitwise (order and repetition do not matter), and uses |epsilon| (machine epsilon if none) as observed on a crafted diagonal basis.",
        note="Shapes: rows 0..4, cols 0..3, weights length 0..4, model output length 0,1,3; L = 3 quick / 4 thorough.", ref="DESIGN.md §5 C18"),
})

META.update({
    "C04": dict(technique="deviation-bounded exhaustive exploration of the optimizer's decision space by owning the model's answers (scripted model under the real LevMarProblem + levenberg-marquardt), plus an exhaustive grid of real fits incl. far starts and all solver configurations",
        text="Every script of model answers up to the depth/deviation bound yields one complete real fit; on each the oracle checks Ok <=> successful termination, the evaluation budget of the solver the caller supplied, and for successful fits the coherence of parameters, coefficients, residuals and objective, monotonicity w.r.t. the initial guess and equality with a fresh problem at the returned parameters (the 'reset after a rejected last step' path is counted). The grid part repeats this on real models with the C01/C02 certificates.",
        note="Bounds: script depth 4/6, deviations 2/3, 31 answers; 7 starts x 24 configurations on 4 real families.", ref="DESIGN.md §5 C04"),
    "C05": dict(technique="exhaustive product grid of real fits over the certified model families (no sampling), judged against reference computations",
        text="Every grid instance must fit successfully, reproduce noiseless data, not exceed the weighted sum of squares of the generating parameters, and be stationary w.r.t. the reference Kaufman Jacobian.",
        note="A grid, not a proof: the claim is 'every grid instance converges'. The certified region was delimited by measurement over noise seeds (DESIGN.md).", ref="DESIGN.md §5 C05"),
})

NOT_YET = "check not yet registered in this revision (engine under construction, see DESIGN.md §10)"
NA = {
    "C19": "frequency claim over a continuous noise distribution ('up to sampling error'): deciding it needs Monte-Carlo sampling or an analytic proof, neither of which is an exhaustive enumeration of a bounded behaviour space (DESIGN.md §5 C19); its deterministic ingredients are decided under C12-C14",
}

ENGINES = [
    dict(name="racecheck", path="harness/src/bin/racecheck.rs", serves_properties=["C10", "C11"], kind_free_text="thorough tier only: free-running real-rayon execution under miri (data-race and uninitialised-read detector); additional oracle, not an enumeration"),
    dict(name="sched", path="harness-sched/src/bin/sched.rs", serves_properties=["C11"], kind_free_text="stateless exhaustive schedule exploration (shuttle DFS) of real rayon/nalgebra/varpro over a shim rayon-core (harness-sched/shim/rayon-core)"),
    dict(name="fitenv", path="harness/src/bin/fitenv.rs", serves_properties=["C04"], kind_free_text="deviation-bounded DFS over scripted model answers; every leaf a real fit"),
    dict(name="fitgrid", path="harness/src/bin/fitgrid.rs", serves_properties=["C02", "C04", "C05"], kind_free_text="exhaustive product grids of real fits vs reference computations"),
    dict(name="pbuilder", path="harness/src/bin/pbuilder.rs", serves_properties=["C18"], kind_free_text="exhaustive enumeration of LevMarProblemBuilder call sequences vs reference validation"),
    dict(name="probstate", path="harness/src/bin/probstate.rs", serves_properties=["C01", "C02", "C03", "C06", "C07", "C10", "C11"], kind_free_text="explicit-state DFS over set_params histories of the real LevMarProblem with per-state invariants and lock-step twins"),
    dict(name="stats", path="harness/src/bin/stats.rs", serves_properties=["C12", "C13", "C14"], kind_free_text="product-grid exploration of real fit_with_statistics runs vs reference linear algebra and scipy t-table"),
    dict(name="nonfinite", path="harness/src/bin/nonfinite.rs", serves_properties=["C08"], kind_free_text="deviation-bounded enumeration of IEEE special values at every input position, watchdogged"),
    dict(name="faults", path="harness/src/bin/faults.rs", serves_properties=["C09", "C03"], kind_free_text="fault injection at every model-call index over histories, fits and statistics"),
    dict(name="mbuilder", path="harness/src/bin/mbuilder.rs", serves_properties=["C15", "C16", "C17"], kind_free_text="explicit-state enumeration of builder call sequences vs reference automaton (real SeparableModelBuilder)"),
]


def main():
    baseline = json.load(open("/root/.vp/BASELINE.json"))
    checks = []
    for pid in sorted(PLAN):
        m = META[pid]
        checks.append(
            dict(
                property_id=pid,
                quick_cmd="./check %s --tier quick" % pid,
                thorough_cmd="./check %s --tier thorough" % pid,
                evidence_file="/verif/evidence/%s.json" % pid,
                replay_cmd_template="./check %s --replay {path}" % pid,
                engine=", ".join(sorted({r["bin"] for r in PLAN[pid]("thorough")})),
                level_claimed=dict(category=LEVEL[pid], text=m["text"], design_ref=m["ref"]),
                level_note=m["note"],
                technique=m["technique"],
            )
        )
    na = []
    for i in range(1, 20):
        pid = "C%02d" % i
        if pid in PLAN:
            continue
        na.append(dict(property_id=pid, reason=NA.get(pid, NOT_YET)))
    man = dict(
        version=1,
        setup_cmd="./setup.sh",
        hooks=dict(
            guard="none (no source hooks: every oracle uses the public API; see DESIGN.md §3.6)",
            enable="n/a - checks build /repo as a path dependency with feature `parallel`",
            baseline_off_cmd="cd /repo && cargo test --workspace --no-fail-fast --offline",
            source_commits=[],
            add_only=True,
        ),
        engines=[e for e in ENGINES if any(p in PLAN for p in e["serves_properties"])],
        checks=checks,
        not_applicable=na,
        notes="Driver: ./check <ID> --tier quick|thorough [--replay file]. Known findings: known_findings.json. Seeded property-breaking changes: seeded/<id>/. All checks rebuild the harness against /repo's working tree (path dependency).",
    )
    json.dump(man, open(os.path.join(ROOT, "MANIFEST.json"), "w"), indent=1)
    try:
        import jsonschema
        jsonschema.validate(man, json.load(open("/root/.vp/MANIFEST.schema.json")))
        print("MANIFEST.json valid;", len(checks), "checks,", len(na), "not_applicable")
    except ImportError:
        print("MANIFEST.json written (jsonschema not importable)")


if __name__ == "__main__":
    main()
