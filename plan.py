"""Which engine runs decide which property (used by ./check)."""


def R(bin, profile="release", **kw):
    d = {"bin": bin, "profile": profile}
    args = kw.pop("args", {})
    d["args"] = args
    d.update(kw)
    return d


def c15(tier):
    return [
        R("mbuilder", args={"mode": "words"}),
        R("mbuilder", args={"mode": "edits"}),
    ]


def c12(tier):
    return [
        R("stats", args={"faults": 1}),
        R("stats", profile="checked", args={"faults": 0}),
    ]


def c13(tier):
    return [R("stats")]


def c14(tier):
    return [R("stats")]


def c08(tier):
    return [
        R("nonfinite", hang_secs=4, max_hangs=6, hang_is_verdict=True),
        R("nonfinite", profile="checked", hang_secs=4, max_hangs=6, hang_is_verdict=True),
    ]


def c09(tier):
    return [R("faults")]


PLAN = {
    "C08": c08,
    "C09": c09,
    "C12": c12,
    "C13": c13,
    "C14": c14,
    "C15": c15,
}

LEVEL = {
    "C01": "model_checking",
    "C02": "model_checking",
    "C03": "model_checking",
    "C04": "model_checking",
    "C05": "exploration",
    "C06": "model_checking",
    "C07": "model_checking",
    "C08": "fault_enumeration",
    "C09": "fault_enumeration",
    "C10": "model_checking",
    "C11": "model_checking",
    "C12": "exploration",
    "C13": "exploration",
    "C14": "exploration",
    "C15": "model_checking",
    "C16": "exploration",
    "C17": "model_checking",
    "C18": "model_checking",
}

RULES = {
    "C15": "every word new(l).s1..sk.build() with l from 6 parameter lists and s_i from the 26-symbol alphabet, k <= L (L=4 quick, 5 thorough), plus every <=k-edit deviation (insert/delete/substitute/swap over a 58-symbol pool; k=1 quick, 2 thorough) of 10 valid templates; each word is executed on the real builder and on the reference specification automaton; a state is a builder call history (the builder accumulates its history, so the state graph is the word tree); every word counts as distinct and non-trivial",
}

ASSUMPTIONS = {
    "C15": [
        "the reference automaton in harness/src/mbref.rs is the specification (written from the property text and rustdoc)",
        "function arities 1..3 and the name pool {a,b,c,d,'a,b'} are representative of arities 1..10 (the builder logic is arity-generic; the per-arity dispatch is C16's subject)",
    ],
}
