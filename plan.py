"""Which engine runs decide which property (used by ./check)."""


def R(bin, profile="release", **kw):
    d = {"bin": bin, "profile": profile}
    args = kw.pop("args", {})
    d["args"] = args
    d.update(kw)
    return d


def c15(tier):
    return [
        # depth 6 is the first length at which a valid specification with two parameter-dependent functions exists
        R("mbuilder", args={"mode": "words", "depth": 6} if tier == "thorough" else {"mode": "words"}),
        R("mbuilder", args={"mode": "edits"}),
    ]


def c16(tier):
    return [R("mbuilder", args={"mode": "routing"})]


def c17(tier):
    return [R("mbuilder", args={"mode": "misuse", "depth": 5} if tier == "thorough" else {"mode": "misuse"})]


def c18(tier):
    return [R("pbuilder", args={"depth": 5}) if tier == "thorough" else R("pbuilder")]


def c05(tier):
    return [R("fitgrid")]


def c04(tier):
    # the scripted model of fitenv is a pure function of alpha; models whose answer changes between two evaluations
    # at the same alpha (a fault at the optimizer's final restoring evaluation) come from the fault sweep
    return [R("fitenv"), R("fitgrid"), R("faults", args={"phases": "fit"})]


def c12(tier):
    return [
        R("stats", args={"faults": 1}),
        R("stats", profile="checked", args={"faults": 0}),
        # "in every build profile, without panicking": a failure at every model call of fit_with_statistics (the optimizer's
        # final restoring evaluation included) in the profile with debug assertions and overflow checks
        R("faults", profile="checked", args={"phases": "fitstats"}),
    ]


def c13(tier):
    return [R("stats")]


def c14(tier):
    return [R("stats")]


def c08(tier):
    return [
        R("nonfinite", hang_secs=4, max_hangs=6, hang_is_verdict=True),
        R("nonfinite", profile="checked", hang_secs=4, max_hangs=6, hang_is_verdict=True),
        R("nonfinite", args={"mode": "starts"}, hang_secs=6, max_hangs=6, hang_is_verdict=True),
        # models that fail transiently honour the trait contract as well: a failure at every model call of a whole
        # fit_with_statistics (the optimizer's final restoring evaluation included) must not panic either
        R("faults", args={"phases": "fitstats"}),
    ]


def c09(tier):
    return [R("faults"), R("faults", profile="checked", args={"phases": "fitstats"})]


def c01(tier):
    return [R("probstate")]


def c02(tier):
    return [R("probstate"), R("fitgrid")]


def c03(tier):
    return [R("probstate"), R("faults")]


def c06(tier):
    return [R("probstate"), R("fitgrid")]


def c07(tier):
    return [R("probstate"), R("fitgrid")]


def c10(tier):
    runs = [R("probstate")]
    if tier == "thorough":
        runs.append(R("racecheck", miri=True))
    return runs


def c11(tier):
    runs = [R("sched", workspace="sched"), R("probstate", rayon_threads=4), R("fitgrid", rayon_threads=4)]
    if tier == "thorough":
        # free-running pass on real rayon under miri's data-race detector (atomicity assumption of the schedule explorer)
        runs.append(R("racecheck", miri=True))
    return runs


PLAN = {
    "C04": c04,
    "C05": c05,
    "C01": c01,
    "C02": c02,
    "C03": c03,
    "C06": c06,
    "C07": c07,
    "C10": c10,
    "C11": c11,
    "C08": c08,
    "C09": c09,
    "C12": c12,
    "C13": c13,
    "C14": c14,
    "C15": c15,
    "C16": c16,
    "C17": c17,
    "C18": c18,
}

LEVEL = {
    "C01": "model_checking",
    "C02": "model_checking",
    "C03": "model_checking",
    "C04": "model_checking",
    "C05": "exploration",
    "C06": "model_checking",
    "C07": "model_checking",
    "C08": "fault_enumeration",
    "C09": "fault_enumeration",
    "C10": "model_checking",
    "C11": "model_checking",
    "C12": "exploration",
    "C13": "exploration",
    "C14": "exploration",
    "C15": "model_checking",
    "C16": "exploration",
    "C17": "model_checking",
    "C18": "model_checking",
}

RULES = {
    "C04": "(a) fitenv: scripts of model answers explored depth-first with deviation bounding (default answer = 'much better, consistent slope'; 30 alternative answers + NaN/inf/Err; script depth 4 quick / 6 thorough, <= 2 / 3 deviations) for every solver configuration (patience {1,2,6,100} x tolerances {default, 1e-3, 0} x step bound {0.1,100} x P {1,2} x seq/par x with/without fault answers); every leaf is one complete real fit; (b) fitgrid: real models (Z1, Z2, Z4, O'Leary) from 7 starts incl. far and sign-flipped ones x 24 solver configurations x weights x noise x S x provenance/flavour/width; non-trivial = successful fits whose final state was fully checked",
    "C05": "complete product grid over the certified families (single decay+offset, two decays+offset with ratio 3/5/10, three decays with ratio 3/5, Gaussian+decay+offset): generating parameters x coefficients x N in {32,64,200} x weights {none, ones, ramp, 1/sigma} x noise {none, 1e-4, 1e-3, 1e-2 (where certified), alternating} x starts truth*(1+-d)^P, d in {0.02,0.05} x S in {1,2,3} x f64/f32 x hand/built x seq/par; every case is one real fit judged by reproduction, wrss <= wrss(truth) and reference-Jacobian stationarity; every case is distinct; non-trivial = fits judged completely",
    "C18": "every call sequence of length <= L (3 quick, 5 thorough; 3 for the 300-sample model) over observations(rows in {0,1,2,3,4} resp. {n-1,n,n+1,0} x cols in {0,1,2,3}), weights(len likewise, all-ones | varied), epsilon(+-1e-2, +-1e-8, 0[, 1e-300, -0; 0.05, -0.125 for the dense model]) for the constructors new/new_parallel/mrhs/mrhs_parallel x model output length {0,1,3,5,300} x {f64,f32}; the 5-sample model has a dense well conditioned 5x3 basis whose exposed initial coefficients/residuals are compared with the reference least-squares solution; for every accepted sequence the exposed residuals must equal W(Y - Phi C) for the exposed coefficients; the 3-sample model has an exactly diagonal basis diag(1, d2) with d2 = 1e-5 or 0.4375*eps so that the threshold in force is observable in the coefficients; every sequence is a distinct case. Value grid (consistent shapes only): constructor x {f64,f32} x output length {5,3} x observations (base | one of 14 special values [0, -0, -1, smallest subnormal, smallest normal, eps, 1e-18, 1e10, a value whose square overflows and its negative, MAX, +-inf, NaN] at every / the first / the middle / the last position of the last column) x weights (none | base | the same patterns) x threshold (none, 0, -1e-30, NaN; thorough also -0, subnormal, 1e-2, inf): build() must return Ok, report the initial parameters, and expose the initial state for finite moderate values",
    "C17": "ops also include Break(slot,len) / Heal, which change which closure misbehaves DURING a history; environment = which of the 6 closures (3 basis functions, 3 derivatives) of a builder-made model returns a vector of wrong length (0, 1, 2, N-1, N+1, 2N), singly, in all pairs with cancelling totals, and two triples; the model has 4, 1 or 0 samples and three basis functions or a single one; within each environment ALL op sequences up to depth d (3 quick, 5 thorough for the 4-sample three-function model, 3 otherwise) over 19 ops (signed-zero parameter vectors included): eval, eval_partial_deriv(k) for k in {0,1,P,P+1,usize::MAX}, set_params(good a1|a2), set_params of length 0, P-1, P+1, 2P; every step is compared with the reference (last accepted parameters, exact expected matrices, expected error kind and payload); every sequence counts as distinct and non-trivial",
    "C16": "case = one builder-made model with injectively tagged closures: model parameter list = every permutation of {a,b,c} and {a,b,c,d}; a function over every ordered subset (arity 1..4) with every order of supplying its derivatives, with an invariant function before/after/absent; pairs of functions over all pairs of ordered subsets; arity 5..10 on a 10-parameter model with every rotation, every transposition of the identity and of a scattered assignment, three derivative orders, three rotations of the model list; f32 and f64; oracle = exact (bitwise) comparison of eval, every eval_partial_deriv, params round-trip and parameters(); every model is distinct and non-trivial",
    "C01": "scenario = (family, N, provenance, f32|f64, seq|par, single|mrhs + observation columns, weight kind, threshold kind, alphabet of 4-9 parameter vectors incl. signed zeros, duplicates, sub-threshold steps, and decay constants scaled by 1e-17..1e17; families incl. a 4-parameter function declared in permuted order and incidence patterns with gaps; sizes up to 8200 samples); within a scenario ALL histories of set_params over the alphabet up to depth d are executed on the live problem (d=2 quick, 3 thorough; C10: 3/4), plus three long deterministic walks per scenario (alphabet cyclically x3, every entry repeated x4, ping-pong; 9n steps) beyond the depth bound; state = everything the LeastSquaresProblem interface exposes (bit patterns of params, residuals, coefficients, Jacobian); non-trivial = distinct reached states whose rank class is decidable (Full or Truncated) and on which the heavy oracle ran",
    "C02": "scenario = (family, N, provenance, f32|f64, seq|par, single|mrhs + observation columns, weight kind, threshold kind, alphabet of 4-9 parameter vectors incl. signed zeros, duplicates, sub-threshold steps, and decay constants scaled by 1e-17..1e17; families incl. a 4-parameter function declared in permuted order and incidence patterns with gaps; sizes up to 8200 samples); within a scenario ALL histories of set_params over the alphabet up to depth d are executed on the live problem (d=2 quick, 3 thorough; C10: 3/4), plus three long deterministic walks per scenario (alphabet cyclically x3, every entry repeated x4, ping-pong; 9n steps) beyond the depth bound; state = everything the LeastSquaresProblem interface exposes (bit patterns of params, residuals, coefficients, Jacobian); non-trivial = distinct reached states whose rank class is decidable (Full or Truncated) and on which the heavy oracle ran",
    "C03": "scenario = (family, N, provenance, f32|f64, seq|par, single|mrhs + observation columns, weight kind, threshold kind, alphabet of 4-9 parameter vectors incl. signed zeros, duplicates, sub-threshold steps, and decay constants scaled by 1e-17..1e17; families incl. a 4-parameter function declared in permuted order and incidence patterns with gaps; sizes up to 8200 samples); within a scenario ALL histories of set_params over the alphabet up to depth d are executed on the live problem (d=2 quick, 3 thorough; C10: 3/4), plus three long deterministic walks per scenario (alphabet cyclically x3, every entry repeated x4, ping-pong; 9n steps) beyond the depth bound; state = everything the LeastSquaresProblem interface exposes (bit patterns of params, residuals, coefficients, Jacobian); non-trivial = distinct reached states whose rank class is decidable (Full or Truncated) and on which the heavy oracle ran; plus the fault sweep of the C09 engine for the all-or-nothing clause",
    "C06": "scenario = (family, N, provenance, f32|f64, seq|par, single|mrhs + observation columns, weight kind, threshold kind, alphabet of 4-9 parameter vectors incl. signed zeros, duplicates, sub-threshold steps, and decay constants scaled by 1e-17..1e17; families incl. a 4-parameter function declared in permuted order and incidence patterns with gaps; sizes up to 8200 samples); within a scenario ALL histories of set_params over the alphabet up to depth d are executed on the live problem (d=2 quick, 3 thorough; C10: 3/4), plus three long deterministic walks per scenario (alphabet cyclically x3, every entry repeated x4, ping-pong; 9n steps) beyond the depth bound; state = everything the LeastSquaresProblem interface exposes (bit patterns of params, residuals, coefficients, Jacobian); non-trivial = distinct reached states whose rank class is decidable (Full or Truncated) and on which the heavy oracle ran; every scenario runs the weighted subject and its row-scaled / unweighted / row-deleted / |w| twin, and a subject built with a provisional weights call before the final one, in lock-step; user thresholds 1e-2 / 1e-8 with large, tiny and uniform weights; 4100 and 8200 samples with a zero / negative weight past row 4096; whole fits with weight kinds incl. KeepOnly(M+P)",
    "C07": "scenario = (family, N, provenance, f32|f64, seq|par, single|mrhs + observation columns, weight kind, threshold kind, alphabet of 4-9 parameter vectors incl. signed zeros, duplicates, sub-threshold steps, and decay constants scaled by 1e-17..1e17; families incl. a 4-parameter function declared in permuted order and incidence patterns with gaps; sizes up to 8200 samples); within a scenario ALL histories of set_params over the alphabet up to depth d are executed on the live problem (d=2 quick, 3 thorough; C10: 3/4), plus three long deterministic walks per scenario (alphabet cyclically x3, every entry repeated x4, ping-pong; 9n steps) beyond the depth bound; state = everything the LeastSquaresProblem interface exposes (bit patterns of params, residuals, coefficients, Jacobian); non-trivial = distinct reached states whose rank class is decidable (Full or Truncated) and on which the heavy oracle ran; every scenario runs the mrhs subject and one single-rhs problem per column in lock-step; scenarios = all ordered selections of 1..3 columns from a 6-column pool (+ selections with 4, 5, 33 and 70 columns, and columns whose magnitudes differ by more than the exponent range of the scalar type)",
    "C10": "scenario = (family, N, provenance, f32|f64, seq|par, single|mrhs + observation columns, weight kind, threshold kind, alphabet of 4-9 parameter vectors incl. signed zeros, duplicates, sub-threshold steps, and decay constants scaled by 1e-17..1e17; families incl. a 4-parameter function declared in permuted order and incidence patterns with gaps; sizes up to 8200 samples); within a scenario ALL histories of set_params over the alphabet up to depth d are executed on the live problem (d=2 quick, 3 thorough; C10: 3/4), plus three long deterministic walks per scenario (alphabet cyclically x3, every entry repeated x4, ping-pong; 9n steps) beyond the depth bound; state = everything the LeastSquaresProblem interface exposes (bit patterns of params, residuals, coefficients, Jacobian); non-trivial = distinct reached states whose rank class is decidable (Full or Truncated) and on which the heavy oracle ran; additionally scenarios whose alphabet contains a parameter vector the model rejects (at set_params or at evaluation), signed zeros, parameter vectors closer together than the user threshold, overflowing parameters; every first-visited state is re-observed under four heap poisons, against a fresh problem and (parallel subjects) inside worker pools of 1 and 3 threads",
    "C11": "scenario = (family, N, provenance, f32|f64, seq|par, single|mrhs + observation columns, weight kind, threshold kind, alphabet of 4-9 parameter vectors incl. signed zeros, duplicates, sub-threshold steps, and decay constants scaled by 1e-17..1e17; families incl. a 4-parameter function declared in permuted order and incidence patterns with gaps; sizes up to 8200 samples); within a scenario ALL histories of set_params over the alphabet up to depth d are executed on the live problem (d=2 quick, 3 thorough; C10: 3/4), plus three long deterministic walks per scenario (alphabet cyclically x3, every entry repeated x4, ping-pong; 9n steps) beyond the depth bound; state = everything the LeastSquaresProblem interface exposes (bit patterns of params, residuals, coefficients, Jacobian); non-trivial = distinct reached states whose rank class is decidable (Full or Truncated) and on which the heavy oracle ran; every scenario runs the parallel subject and its sequential twin in lock-step (real rayon)",
    "C08": "case = a finite baseline problem (family x N in {1,2,3,4(,8)} x S in {1,2} x provenance x flavour x weights x f32/f64) with <= k positions (each element of x, y, w, the initial alpha, or a later set_params vector) replaced by one of 14 IEEE special values; every case runs build, queries, set_params, fit, fit_with_statistics and all statistics accessors; non-trivial = the basis matrix at the starting parameters is non-finite (the path the property is about). Mode starts (finite inputs only): family x N in {M, M+P, 8, 16, 33} x provenance x flavour x weights x f32/f64 x observation scale (1, tiny, huge, near overflow) x every combination of multipliers (quick 4, thorough 10 values from -10 to 100, wrong signs included) of the generating parameters as the starting point; each case runs the same pipeline. Fault sweep (engine faults, phases fit + statistics): every domain model and problem of the C09 sweep with one model failure (set_params / eval / eval_partial_deriv, transient or sticky) injected at every model-call index of the fault-free run, fit and fit_with_statistics must return (Ok or Err) without panicking",
    "C09": "scenarios incl. parallel problems whose Jacobian has more than 2^15 entries (128 samples x 70 right-hand sides, 8200 samples); case = (scenario, phase in {caller history <= d over 3 parameter vectors, fit, fit_with_statistics}, failing model-call index k < n, transient|persistent, model keeps|stores rejected parameters); non-trivial = the injected failure actually fired",
    "C12": "case = (family/shape with N from M to M+P+3, width, provenance, weights, one of four solver set-ups (default, huge xtol, zero observations, zero tolerances = a failed fit), build profile) plus a failure at every model call of the statistics phase, plus bit-exact perfect fits (one basis function, exactly representable values), plus every case of the C13 grid (and, thorough, of the C14 grid); non-trivial = statistics code entered (successful fit) and either the identities were checked or the under-determined/faulted case was rejected",
    "C13": "case = (incidence pattern | Z1-Z5, N incl. values around 128/1024, weights incl. zero/negative entries and KeepOnly(M+P[+1,+3]) = exact zeros everywhere else, noise vector, amplitude 1e-5..4e9, width, provenance[, parallel]); builder call order varied with (N+S) mod 3; non-trivial = covariance compared entry-wise with the reference AND all reference variances pairwise distinct (ordering observable)",
    "C14": "case = (family, nu = N-M-P in 1..30 and 100, weights, width, provenance, amplitude 1, 1e-6, 1e6) x every p of the alphabet (13 levels from 1e-12 to values within one ulp of 1 in f32), queried largest-first then ascending so that consecutive fits with different degrees of freedom request the same level back to back; nu in 1..30, 100, 995, 1001, 1201, 5000; non-trivial = fits whose band was compared with the reference table",
    "C15": "every word new(l).s1..sk.build() with l from 6 parameter lists and s_i from the 26-symbol alphabet, k <= L (L=4 quick, 6 thorough), plus every <=k-edit deviation (insert/delete/substitute/swap over a 58-symbol pool; k=1 quick, 2 thorough) of 10 valid templates; each word is executed on the real builder and on the reference specification automaton; a state is a builder call history (the builder accumulates its history, so the state graph is the word tree); every word counts as distinct and non-trivial",
}

ASSUMPTIONS = {
    "C04": ["models that are not functions of alpha (transient failures) are covered by the fault sweep over whole fits (engine faults, phases=fit)", "the scripted model is a legal SeparableNonlinearModel: its value is a function of alpha (answers are remembered per parameter vector)", "scripted fits exercise the optimizer's control flow with M=1, N=2; the linear algebra is exercised by the fitgrid part"],
    "C05": ["certified region (measured over 8 noise seeds): two-decay instances up to noise 1e-3, three-decay instances up to 1e-3 with N >= 64 (1e-4 for N = 32); outside it fits may legitimately fail and are not part of the grid", "tolerances: reproduction 1e-9 (f64) / 2e-5 (f32) relative; stationarity 1e-5 / 5e-2"],
    "C18": ["reference validation function in harness/src/bin/pbuilder.rs", "threshold cases within a factor 2 of the singular value are not judged"],
    "C17": ["two builder-made models (three basis functions / a single one, two parameters) with 4, 1 and 0 samples stand for the guards, which do not depend on the model's size otherwise", "models with more than 4 samples are exercised by the other engines through builder-made models, not by the misuse automaton"],
    "C16": ["tag encoding is injective: parameter values 3+2k, function tag 1000+j, derivative tag 2000+100j+q, x = 500+i are pairwise distinct and exactly representable in f32"],
    "C01": ["reference linear algebra: one-sided Jacobi SVD in f64 (harness/src/refla.rs)", "states within a factor 2 of the threshold (plus rounding floor) are not judged"],
    "C02": ["identity tolerance 16(M+2) eps scaled"],
    "C03": ["full-rank states with 256 max(N,M) eps kappa <= 1e-2 only"],
    "C06": ["tolerance 1024 eps kappa^2 when twins are not bitwise equal", "a difference in the availability of statistics is judged only when the available covariance belongs to a well conditioned matrix (an exactly singular pivot on one side is a rounding artefact)"],
    "C07": ["tolerance 1024 eps kappa^2, relative to the scale of the compared column only, when blocks are not bitwise equal"],
    "C10": ["alphabets of parameter vectors, not all reals"],
    "C11": ["the shim's join_context is faithful to rayon's (DESIGN.md appendix A): a job is either popped back by its owner after the first closure or stolen and run concurrently", "tasks are atomic between scheduling points (spawn, join, entry of each derivative evaluation, lock operations): exact for data-race-free tasks", "for current_num_threads smaller than the number of live tasks the shim over-approximates the real pool (more concurrency than possible), which can only add schedules"],
    "C08": ["a case that is silent for 4 s is counted as not returning", "values outside the 14-value alphabet are not tried"],
    "C09": ["failures are injected by a wrapper model; the wrapped zoo models never fail on their own"],
    "C12": ["under-determined shapes up to M,P <= 3; the identities are additionally judged on every successful fit of the covariance grid (and, thorough, of the band grid)", "success of a fit is read off the optimizer's TerminationReason, not off FitResult::was_successful()"],
    "C13": ["reference covariance from one-sided Jacobi SVD in f64; entry-wise comparison skipped when 4096*eps*kappa(H^T H) > 0.25 (finiteness, accessors and the correlation identity are judged for every Ok result)", "sigma^2 of the reference is rebuilt from W(y - Phi c); the library's value is used only when the two agree within the rounding of the residuals"],
    "C14": ["reference quantiles from scipy.stats.t (harness/data/tquant.json)", "tolerance 2e-4 relative plus 1e-8 absolute in t reflects the accuracy of the distrs crate's quantile (it returns exactly 0 for p below about 1e-8)", "the band is compared with t*sqrt(j^T Cov j) for the covariance the library reports (C13 judges that covariance); samples whose quadratic form cancels by more than 1e-2/(64 eps dim) are only required to be finite and non-negative"],
    "C15": [
        "the reference automaton in harness/src/mbref.rs is the specification (written from the property text and rustdoc)",
        "function arities 1..3 and the name pool {a,b,c,d,'a,b'} are representative of arities 1..10 (the builder logic is arity-generic; the per-arity dispatch is C16's subject)",
    ],
}
