#!/bin/sh
# Builds the verification harness offline from files on disk (idempotent).
set -e
cd "$(dirname "$0")"
export CARGO_NET_OFFLINE=true
mkdir -p .build evidence replays
(cd harness && cargo build --offline -q --profile release --bins 2>&1 | grep -v '^warning' | grep -E '^error' -A 20 || true)
(cd harness && cargo build --offline -q --profile release --bins)
(cd harness && cargo build --offline -q --profile checked --bins)
if [ -d harness-sched ]; then
  (cd harness-sched && cargo build --offline -q --profile release --bins)
fi
echo "setup ok"
